// flows.go - the fifth population of racerun: INFORMATION FLOW FROM SHARED TO PRIVATE VALUES
// BY REFERENCE.  The populations before this one obtain their private values from shared ones
// with Copy / CopyTo - operations that promise a value of its own.  Here a goroutine hands what
// a READ operation on a shared value returned - the reference Get hands out, or what it points
// to - to a WRITE operation on its own value: v, _ := ins.Get(shared, "Name");
// ins.Set(private, v, "Name").  The library assigns text BY REFERENCE (AssignToBytes:
// *dst = *src; strings and bytes reinterpreted into each other without a copy), and containers
// and pointers offered in their exact type as well, so the private value then HOLDS memory of the
// shared value - legitimately: holding and reading it is what every reader does.  The goroutine
// goes on writing to its private value with the write operations the property names: Set /
// SetWithBuffer of scalars and texts at every leaf (the one that holds the reference included:
// a text leaf is REPLACED, never rewritten where it lies), CopyTo into it from a private source
// with its own buffer - as it is, and after Reset -, Reset; and appends / writes in place where
// the memory is its own - while the other goroutines read the shared values.
//
// The flows cross kinds and types: []byte -> []byte, []byte -> string, string -> []byte,
// string -> string, texts into numeric leaves and back (by value), from every leaf of every
// shipped type and of the built-in containers into every leaf of a private value of the same or
// of ANOTHER type (TestObject1.NestedStruct.B -> TestHistory.Comment), in every form a caller
// can hand it on (the reference, one or all of its indirections removed).  Containers and
// pointers (slices, maps, *struct, *[]T where Set takes them by reference) flow into private
// values of the same type; such a value is then PARTLY SHARED BY THE CALLER'S OWN CHOICE - a path
// into the container leads into the shared value -, so its owner only reads through it, copies
// FROM it, writes leaves outside of it and replaces it by a container of its own; CopyTo into
// it / Reset of it (which reuse the collections a destination has - documented, in place) are
// issued once it holds no container of a shared value any more.
//
// What the owner may write in place is decided natively, not by what the code under test is
// supposed to have done: the byte arrays, string data and cells of every shared value of the run
// are indexed before the goroutines start, and a leaf is the owner's own when its memory lies in
// none of them.
//
// Oracles: (1) the race detector - a write operation on a private value that lands in the memory
// its text leaf was assigned from is a race with the readers of the shared value; (2) every call
// returns what it returns when the goroutine runs alone; (3) the private value is, whenever its
// goroutine looks at it again and after all writers have finished, what the goroutine left; (4)
// every shared value is what it was before the goroutines started (this one needs no second
// goroutine).
package main

import (
	"fmt"
	"math/rand"
	"reflect"
	"sort"
	"strconv"
	"strings"
	"unsafe"

	"github.com/koykov/inspector"
)

// ---- the memory of the shared values ---------------------------------------------------------

type span struct{ lo, hi uintptr }

// the memory of every shared value of the run: what their pointers point to, the arrays of their slices (up to
// the capacity), their string data, their maps (by the address of the map)
var sharedMem []span

// indexShared is called once, after every shared value has been registered and before the goroutines start
func indexShared() {
	for _, e := range registry {
		indexMem(reflect.ValueOf(e.v), 0)
	}
	sort.Slice(sharedMem, func(i, j int) bool { return sharedMem[i].lo < sharedMem[j].lo })
	// merged: disjoint and ordered
	out := sharedMem[:0]
	for _, sp := range sharedMem {
		if n := len(out); n > 0 && sp.lo <= out[n-1].hi {
			if sp.hi > out[n-1].hi {
				out[n-1].hi = sp.hi
			}
			continue
		}
		out = append(out, sp)
	}
	sharedMem = out
}

func indexMem(v reflect.Value, depth int) {
	if depth > 16 || !v.IsValid() {
		return
	}
	switch v.Kind() {
	case reflect.Ptr:
		if !v.IsNil() {
			if n := v.Type().Elem().Size(); n > 0 {
				sharedMem = append(sharedMem, span{v.Pointer(), v.Pointer() + n})
			}
			indexMem(v.Elem(), depth+1)
		}
	case reflect.Interface:
		if !v.IsNil() {
			indexMem(v.Elem(), depth+1)
		}
	case reflect.Struct:
		for i := 0; i < v.NumField(); i++ {
			indexMem(v.Field(i), depth+1)
		}
	case reflect.String:
		if s := v.String(); len(s) > 0 {
			p := uintptr(unsafe.Pointer(unsafe.StringData(s)))
			sharedMem = append(sharedMem, span{p, p + uintptr(len(s))})
		}
	case reflect.Slice:
		if v.IsNil() || v.Cap() == 0 {
			return
		}
		sharedMem = append(sharedMem, span{v.Pointer(), v.Pointer() + uintptr(v.Cap())*v.Type().Elem().Size()})
		if v.Type().Elem().Kind() != reflect.Uint8 {
			for i := 0; i < v.Len(); i++ {
				indexMem(v.Index(i), depth+1)
			}
		}
	case reflect.Map:
		if v.IsNil() {
			return
		}
		sharedMem = append(sharedMem, span{v.Pointer(), v.Pointer() + 1})
		it := v.MapRange()
		for it.Next() {
			indexMem(it.Key(), depth+1)
			indexMem(it.Value(), depth+1)
		}
	}
}

func inShared(p uintptr) bool {
	i := sort.Search(len(sharedMem), func(i int) bool { return sharedMem[i].hi > p })
	return i < len(sharedMem) && sharedMem[i].lo <= p
}

// the cell itself lies in a shared value
func cellShared(c reflect.Value) bool { return c.CanAddr() && inShared(c.UnsafeAddr()) }

// ---- the types of this population: every shipped type and the built-in containers -----------

var flowBuiltins = func() []*shippedType {
	room := func(s string) []byte { return append(make([]byte, 0, len(s)+8), s...) }
	ts := []*shippedType{
		{name: "[][]byte", ins: inspector.StringsInspector{}, typ: reflect.TypeOf([][]byte{}),
			templates: []any{&[][]byte{room("first bytes"), room("second"), room("third element")}, &[][]byte{room("one"), {}, room("three")}}},
		{name: "[]string", ins: inspector.StringsInspector{}, typ: reflect.TypeOf([]string{}),
			templates: []any{&[]string{heap("alpha string"), heap("beta"), heap("gamma gamma")}}},
		{name: "map[string]any", ins: inspector.StringAnyMapInspector{}, typ: reflect.TypeOf(map[string]any{}),
			templates: []any{
				&map[string]any{heap("name"): room("bytes of a name"), heap("title"): heap("a title"), heap("n"): 5,
					heap("sub"): map[string]any{heap("inner"): room("inner bytes"), heap("text"): heap("inner text")}},
				&map[string]any{heap("name"): room("other"), heap("title"): heap("t2")},
			}},
	}
	for _, t := range ts {
		for _, tpl := range t.templates {
			t.tplText = append(t.tplText, render(reflect.ValueOf(tpl)))
			t.tplLeaves = append(t.tplLeaves, walkLeaves(tpl))
		}
	}
	return ts
}()

var flowTypes = append(append([]*shippedType{}, shippedTypes...), flowBuiltins...)

// the inner nodes of the templates that a value may be handed on from by reference: slices (not of
// bytes), maps, pointers
var flowNodes = func() map[*shippedType][][][]string {
	out := map[*shippedType][][][]string{}
	for _, t := range flowTypes {
		for _, tpl := range t.templates {
			w := flowWalk(tpl, false)
			out[t] = append(out[t], w.nodes)
		}
	}
	return out
}()

func registerFlowShared() {
	for _, t := range flowBuiltins {
		for i, tpl := range t.templates {
			register(fmt.Sprint("flow template ", t.name, i), tpl)
		}
	}
}

// the struct types whose text fields lie in the value itself, the built-in containers, and all the others
func pickFlowType(r *rand.Rand) *shippedType {
	if r.Intn(3) > 0 {
		// TestObject1, TestObject, TestHistory, TestStruct, TestFinance
		return flowTypes[[]int{0, 1, 1, 2, 3, 3, 4, 4}[r.Intn(8)]]
	}
	return flowTypes[r.Intn(len(flowTypes))]
}

// ---- walking a private value -----------------------------------------------------------------

type fleaf struct {
	path   []string
	cell   reflect.Value
	key    bool // the cell a pointer key points to
	shared bool // its memory is (partly) a shared value's: below a container / pointer of a shared value, or bytes that lie in shared text
}

type fwalk struct {
	leaves []*fleaf
	nodes  [][]string // inner nodes: slices (not of bytes), maps, pointers below the root
	crefs  [][]string // ... of them, those that point into a shared value
}

func isText(k reflect.Value) bool {
	return k.Kind() == reflect.String || (k.Kind() == reflect.Slice && k.Type().Elem().Kind() == reflect.Uint8)
}

// flowWalk lists leaves and inner nodes of v in a fixed order; mem: look the memory up in the index of the shared values
func flowWalk(v any, mem bool) *fwalk {
	w := &fwalk{}
	var walk func(cur reflect.Value, path []string, depth int, sh bool)
	walk = func(cur reflect.Value, path []string, depth int, sh bool) {
		if depth > 14 || !cur.IsValid() {
			return
		}
		sub := func(seg string) []string { return append(path[:len(path):len(path)], seg) }
		switch cur.Kind() {
		case reflect.Interface:
			if !cur.IsNil() {
				walk(cur.Elem(), path, depth+1, sh)
			}
		case reflect.Ptr:
			if cur.IsNil() {
				return
			}
			if depth > 0 {
				w.nodes = append(w.nodes, path)
				if mem && !sh && inShared(cur.Pointer()) {
					w.crefs = append(w.crefs, path)
					sh = true
				}
			}
			walk(cur.Elem(), path, depth+1, sh)
		case reflect.Struct:
			for i := 0; i < cur.NumField(); i++ {
				walk(cur.Field(i), sub(cur.Type().Field(i).Name), depth+1, sh)
			}
		case reflect.Slice:
			if cur.Type().Elem().Kind() == reflect.Uint8 {
				w.leaves = append(w.leaves, &fleaf{path: path, cell: cur, shared: sh || (mem && (cellShared(cur) || (cur.Cap() > 0 && inShared(cur.Pointer()))))})
				return
			}
			if cur.IsNil() {
				return
			}
			if len(path) > 0 {
				w.nodes = append(w.nodes, path)
				if mem && !sh && cur.Cap() > 0 && inShared(cur.Pointer()) {
					w.crefs = append(w.crefs, path)
					sh = true
				}
			}
			for i := 0; i < cur.Len(); i++ {
				walk(cur.Index(i), sub(strconv.Itoa(i)), depth+1, sh)
			}
		case reflect.Map:
			if cur.IsNil() {
				return
			}
			if len(path) > 0 {
				w.nodes = append(w.nodes, path)
				if mem && !sh && inShared(cur.Pointer()) {
					w.crefs = append(w.crefs, path)
					sh = true
				}
			}
			type ent struct {
				sortKey string
				k       reflect.Value
			}
			var es []ent
			dup := map[string]int{}
			it := cur.MapRange()
			for it.Next() {
				kt := render(it.Key())
				dup[kt]++
				es = append(es, ent{kt, it.Key()})
			}
			sort.Slice(es, func(i, j int) bool { return es[i].sortKey < es[j].sortKey })
			for _, e := range es {
				if dup[e.sortKey] > 1 {
					continue // pointer keys with equal content (a copy into a filled map adds them): a path names one of them, which one is the map's business
				}
				seg, ok := keyText(e.k)
				if !ok {
					continue
				}
				p := sub(seg)
				if e.k.Kind() == reflect.Ptr && isLeafKind(e.k.Type().Elem().Kind()) {
					w.leaves = append(w.leaves, &fleaf{path: p, cell: e.k.Elem(), key: true, shared: sh || (mem && inShared(e.k.Pointer()))})
				}
				walk(cur.MapIndex(e.k), p, depth+1, sh)
			}
		default:
			if isLeafKind(cur.Kind()) {
				w.leaves = append(w.leaves, &fleaf{path: path, cell: cur, shared: sh || (mem && cellShared(cur))})
			}
		}
	}
	walk(reflect.ValueOf(v), nil, 0, false)
	return w
}

func hasPrefix(path, pre []string) bool {
	if len(pre) > len(path) {
		return false
	}
	for i := range pre {
		if path[i] != pre[i] {
			return false
		}
	}
	return true
}

// ---- one goroutine's private values ------------------------------------------------------------

type fslot struct {
	t      *shippedType
	v      any                   // PRIVATE (pointer form)
	src    any                   // PRIVATE as well: the source of CopyTo into v
	buf    *inspector.ByteBuffer // this value's own buffer
	how    string
	left   string // the rendering of v after the goroutine's last own write to it
	w      *fwalk // leaves and nodes of v (nil: to be walked again)
	copies int    // CopyTo into v since it was obtained / Reset
}

type flowState struct {
	slots [2]fslot
	bad   []string
}

func ptrForm(t *shippedType, x any) any {
	if x == nil {
		return nil
	}
	v := reflect.ValueOf(x)
	if v.Kind() == reflect.Ptr {
		return x
	}
	if v.Type() != t.typ {
		return nil
	}
	p := reflect.New(t.typ)
	p.Elem().Set(v)
	return p.Interface()
}

// an own copy of one of the type's templates
func ownCopy(r *rand.Rand, t *shippedType) (any, int, string) {
	ti := r.Intn(len(t.templates))
	var v any
	res := guarded(func() string {
		c, err := t.ins.Copy(t.templates[ti])
		v = ptrForm(t, c)
		return fmt.Sprint(err)
	})
	if v != nil && reflect.ValueOf(v).IsNil() {
		v = nil
	}
	return v, ti, res
}

func (d *flowState) derive(r *rand.Rand, sl *fslot) string {
	t := pickFlowType(r)
	*sl = fslot{t: t}
	v, ti, res := ownCopy(r, t)
	src, si, res2 := ownCopy(r, t)
	if v == nil || src == nil {
		return fmt.Sprint("fderive ", t.name, " -> nothing ", res, res2)
	}
	sl.v, sl.src, sl.buf, sl.how = v, src, inspector.NewByteBuffer(r.Intn(3)*64), fmt.Sprint("Copy of template ", ti)
	// the private source gets texts of its own, of several lengths
	out := ""
	sw := flowWalk(src, false)
	for n := r.Intn(3); n > 0 && len(sw.leaves) > 0; n-- {
		lf := sw.leaves[r.Intn(len(sw.leaves))]
		if lf.key || !isText(lf.cell) {
			continue
		}
		val, text := pick(r, 'b')
		out += " src." + strings.Join(lf.path, ".") + "<-" + text + ":" + guarded(func() string { return fmt.Sprint(t.ins.Set(src, val, lf.path...)) })
	}
	sl.left = render(reflect.ValueOf(v))
	return fmt.Sprint("fderive ", t.name, ti, "/", si, " ", res, res2, out, " ", sl.left)
}

func (d *flowState) ensure(r *rand.Rand, sl *fslot) string {
	if sl.v != nil {
		return d.verify(sl)
	}
	pre := ""
	for try := 0; try < 3 && sl.v == nil; try++ {
		pre += d.derive(r, sl) + " ; "
	}
	return pre
}

func (d *flowState) walk(sl *fslot) *fwalk {
	if sl.w == nil {
		sl.w = flowWalk(sl.v, true)
	}
	return sl.w
}

// the private value is what its goroutine left
func (d *flowState) verify(sl *fslot) string {
	if sl.v == nil || sl.left == "" {
		return ""
	}
	if now := render(reflect.ValueOf(sl.v)); now != sl.left {
		msg := fmt.Sprintf("%s value holding references (%s): the goroutine left %s, it now holds %s", sl.t.name, sl.how, clip(sl.left, now), clip(now, sl.left))
		d.bad = append(d.bad, msg)
		sl.left = now
		sl.w = nil
		return " FOREIGN[" + msg + "]"
	}
	return ""
}

func (d *flowState) wrote(sl *fslot, structural bool) {
	sl.left = render(reflect.ValueOf(sl.v))
	if structural || sl.t.typ.Kind() == reflect.Map {
		sl.w = nil
	}
}

// the forms in which a caller hands on what Get returned: the reference, or what it points to
func handOn(r *rand.Rand, g any) (any, string) {
	v := reflect.ValueOf(g)
	form := "as it is"
	for n := r.Intn(3); n > 0 && v.IsValid() && v.Kind() == reflect.Ptr && !v.IsNil(); n-- {
		v = v.Elem()
		form += "*"
	}
	if !v.IsValid() || !v.CanInterface() {
		return g, "as it is"
	}
	return v.Interface(), form
}

// the leaf at a path, as the walk names it (a map key by its text)
func leafText(sl *fslot, path []string) string {
	cur := reflect.ValueOf(sl.v)
	i := 0
	for depth := 0; depth < 32; depth++ {
		switch cur.Kind() {
		case reflect.Ptr, reflect.Interface:
			if cur.IsNil() {
				return "gone"
			}
			cur = cur.Elem()
			continue
		}
		if i == len(path) {
			break
		}
		switch cur.Kind() {
		case reflect.Struct:
			cur = cur.FieldByName(path[i])
		case reflect.Slice:
			n, err := strconv.Atoi(path[i])
			if cur.Type().Elem().Kind() == reflect.Uint8 || err != nil || n < 0 || n >= cur.Len() {
				return "gone"
			}
			cur = cur.Index(n)
		case reflect.Map:
			var hit reflect.Value
			it := cur.MapRange()
			for it.Next() {
				if seg, ok := keyText(it.Key()); ok && seg == path[i] {
					if hit.IsValid() {
						// pointer keys with equal content (a Set below a pointer key that is looked up by content adds one)
						return "one of several"
					}
					hit = it.Value()
				}
			}
			cur = hit
		default:
			return "gone"
		}
		if !cur.IsValid() {
			return "gone"
		}
		i++
	}
	if i != len(path) || !(isLeafKind(cur.Kind()) || isText(cur)) {
		return "gone"
	}
	return render(cur)
}

// a leaf of the private value that the write operations may be aimed at: not below a container of a shared value
func (d *flowState) pickOwn(r *rand.Rand, sl *fslot, text bool, inPlace bool) *fleaf {
	w := d.walk(sl)
	var ok []*fleaf
	for _, lf := range w.leaves {
		if lf.key && !inPlace {
			continue
		}
		if text && !isText(lf.cell) {
			continue
		}
		if inPlace && (lf.shared || !lf.cell.CanSet()) {
			continue
		}
		under := false
		for _, c := range w.crefs {
			if hasPrefix(lf.path, c) {
				under = true
			}
		}
		if !under {
			ok = append(ok, lf)
		}
	}
	if len(ok) == 0 {
		return nil
	}
	return ok[r.Intn(len(ok))]
}

// Get on a shared value, the result handed to Set / SetWithBuffer on the private value
func (d *flowState) flow(r *rand.Rand, sl *fslot) string {
	pre := d.ensure(r, sl)
	if sl.v == nil {
		return pre
	}
	st := pickFlowType(r)
	ti := r.Intn(len(st.templates))
	var from []*vleaf
	wantText := r.Intn(5) > 0
	for _, lf := range st.tplLeaves[ti] {
		if !lf.key && (!wantText || isText(lf.cell)) {
			from = append(from, lf)
		}
	}
	if len(from) == 0 {
		return pre + "flow " + st.name + " has no such leaf"
	}
	sf := from[r.Intn(len(from))]
	to := d.pickOwn(r, sl, wantText && r.Intn(6) > 0, false)
	if to == nil {
		to = d.pickOwn(r, sl, false, false)
	}
	if to == nil {
		return pre + "flow " + sl.t.name + " no leaf to write"
	}
	t := sl.t
	var how, form string
	withBuf := r.Intn(2) == 0
	res := guarded(func() string {
		g, err := st.ins.Get(st.templates[ti], sf.path...)
		if g == nil {
			return fmt.Sprint("nothing ", err)
		}
		var val any
		val, form = handOn(r, g)
		if withBuf {
			how = "SetWithBuffer"
			err = t.ins.SetWithBuffer(sl.v, val, sl.buf, to.path...)
		} else {
			how = "Set"
			err = t.ins.Set(sl.v, val, to.path...)
		}
		return fmt.Sprint(err)
	})
	d.wrote(sl, true)
	return fmt.Sprint(pre, "flow ", st.name, ti, " ", strings.Join(sf.path, "."), " (", form, ") -> ", t.name, " ", strings.Join(to.path, "."), " ", how, " ", res, " : ", leafText(sl, to.path))
}

// a container or a pointer of a shared value of the SAME type handed on to the private value
func (d *flowState) cflow(r *rand.Rand, sl *fslot, own bool) string {
	pre := d.ensure(r, sl)
	if sl.v == nil {
		return pre
	}
	t := sl.t
	w := d.walk(sl)
	var from any
	var path []string
	what := "cflow "
	if own {
		// the containers of shared values are replaced by containers of the goroutine's own
		if len(w.crefs) == 0 {
			return pre + "creplace " + t.name + " holds none"
		}
		path = w.crefs[r.Intn(len(w.crefs))]
		c, _, _ := ownCopy(r, t)
		if c == nil {
			return pre + "creplace " + t.name + " no copy"
		}
		from, what = c, "creplace "
	} else {
		ti := r.Intn(len(t.templates))
		nodes := flowNodes[t][ti]
		if len(nodes) == 0 {
			return pre + "cflow " + t.name + " has no inner node"
		}
		path = nodes[r.Intn(len(nodes))]
		for _, c := range w.crefs {
			if hasPrefix(path, c) && len(path) > len(c) {
				return pre + "cflow " + t.name + " " + strings.Join(path, ".") + " lies in a shared value already"
			}
		}
		from, what = t.templates[ti], fmt.Sprint("cflow ", ti, " ")
	}
	form := ""
	res := guarded(func() string {
		g, err := t.ins.Get(from, path...)
		if g == nil {
			return fmt.Sprint("nothing ", err)
		}
		var val any
		val, form = handOn(r, g)
		if r.Intn(2) == 0 {
			return fmt.Sprint("SetWithBuffer ", err, t.ins.SetWithBuffer(sl.v, val, sl.buf, path...))
		}
		return fmt.Sprint("Set ", err, t.ins.Set(sl.v, val, path...))
	})
	d.wrote(sl, true)
	return fmt.Sprint(pre, what, t.name, " ", strings.Join(path, "."), " (", form, ") ", res, " holds ", len(d.walk(sl).crefs), " ", sl.left)
}

// a write to the private value: Set / SetWithBuffer at a leaf, an append through the reference Get returns,
// the owner's write in place - the last two where the memory is the goroutine's own
func (d *flowState) mutate(r *rand.Rand, sl *fslot) string {
	pre := d.ensure(r, sl)
	if sl.v == nil {
		return pre
	}
	t := sl.t
	m := r.Intn(8)
	var how, res string
	var lf *fleaf
	switch {
	case m == 7:
		if lf = d.pickOwn(r, sl, false, true); lf == nil {
			return pre + "fmut " + t.name + " owns no leaf to write in place"
		}
		how, res = "own", writeCell(r, lf.cell)
		if lf.key {
			how = "own(key)"
		}
	case m == 6:
		if lf = d.pickOwn(r, sl, true, true); lf == nil || lf.key || lf.cell.Kind() != reflect.Slice {
			return pre + "fmut " + t.name + " owns no bytes to append to"
		}
		how = "append"
		_, text := pick(r, 'b')
		res = guarded(func() string {
			g, err := t.ins.Get(sl.v, lf.path...)
			p, ok := g.(*[]byte)
			if !ok || p == nil || unsafe.Pointer(p) != lf.cell.Addr().UnsafePointer() {
				return fmt.Sprint("no reference to the leaf ", err)
			}
			*p = append(*p, text...)
			return "<- +" + text
		})
	default:
		if lf = d.pickOwn(r, sl, r.Intn(3) > 0, false); lf == nil {
			return pre + "fmut " + t.name + " no leaf"
		}
		val, text := leafValue(r, lf.cell)
		res = guarded(func() string {
			var err error
			if m >= 3 {
				how = "SetWithBuffer"
				err = t.ins.SetWithBuffer(sl.v, val, sl.buf, lf.path...)
			} else {
				how = "Set"
				err = t.ins.Set(sl.v, val, lf.path...)
			}
			return fmt.Sprint("<- ", text, " ", err)
		})
	}
	d.wrote(sl, false)
	after := "key"
	if !lf.key {
		after = leafText(sl, lf.path)
	}
	return fmt.Sprint(pre, "fmut ", t.name, " ", how, " ", strings.Join(lf.path, "."), " ", res, " : ", after)
}

// CopyTo into the private value from the goroutine's private source with the value's own buffer - into the value
// as it is, or after Reset -, or Reset alone
func (d *flowState) overwrite(r *rand.Rand, sl *fslot) string {
	pre := d.ensure(r, sl)
	if sl.v == nil {
		return pre
	}
	t := sl.t
	if n := len(d.walk(sl).crefs); n > 0 {
		// the collections of a destination are reused in place: not while they are a shared value's
		return pre + d.cflow(r, sl, true)
	}
	m := r.Intn(5)
	if sl.copies >= 2 && m < 2 {
		m = 2
	}
	how := ""
	res := guarded(func() string {
		switch {
		case m < 2:
			how = "CopyTo"
			sl.copies++
			return fmt.Sprint(t.ins.CopyTo(sl.src, sl.v, sl.buf))
		case m < 4:
			how = "Reset+CopyTo"
			sl.copies = 1
			err := t.ins.Reset(sl.v)
			sl.buf.Reset()
			return fmt.Sprint(err, t.ins.CopyTo(sl.src, sl.v, sl.buf))
		}
		how = "Reset"
		sl.copies = 0
		return fmt.Sprint(t.ins.Reset(sl.v))
	})
	d.wrote(sl, true)
	deq := guarded(func() string { return fmt.Sprint(t.ins.DeepEqual(sl.v, sl.src)) })
	return fmt.Sprint(pre, "fover ", t.name, " ", how, " ", res, " deq=", deq, " ", sl.left)
}

// read operations THROUGH the private value (part of it may be memory of a shared value), and copies FROM it
func (d *flowState) through(r *rand.Rand, sl *fslot) string {
	pre := d.ensure(r, sl)
	if sl.v == nil {
		return pre
	}
	t := sl.t
	w := d.walk(sl)
	var path []string
	if len(w.leaves) > 0 {
		path = w.leaves[r.Intn(len(w.leaves))].path
	}
	return pre + guarded(func() string {
		switch r.Intn(5) {
		case 0:
			x, err := t.ins.Get(sl.v, path...)
			return fmt.Sprint("fget ", t.name, path, " ", render(reflect.ValueOf(x)), " ", err)
		case 1:
			var b bool
			err := t.ins.Compare(sl.v, inspector.Op(1+r.Intn(6)), strconv.Itoa(r.Intn(100)), &b, path...)
			return fmt.Sprint("fcmp ", t.name, path, " ", b, " ", err)
		case 2:
			ti := r.Intn(len(t.templates))
			return fmt.Sprint("fdeq ", t.name, ti, " ", t.ins.DeepEqual(sl.v, t.templates[ti]), t.ins.DeepEqual(t.templates[ti], sl.v))
		case 3:
			c, err := t.ins.Copy(sl.v)
			return fmt.Sprint("fcopy ", t.name, " ", render(reflect.ValueOf(c)), " ", err)
		}
		dst := reflect.New(t.typ).Interface()
		err := t.ins.CopyTo(sl.v, dst, inspector.NewByteBuffer(0))
		return fmt.Sprint("fcopyto ", t.name, " ", render(reflect.ValueOf(dst)), " ", err)
	})
}

// a read operation on a shared template, at the path of one of its leaves
func (d *flowState) read(r *rand.Rand) string {
	t := pickFlowType(r)
	ti := r.Intn(len(t.templates))
	tpl := t.templates[ti]
	var path []string
	if ls := t.tplLeaves[ti]; len(ls) > 0 {
		path = ls[r.Intn(len(ls))].path
	}
	return guarded(func() string {
		switch r.Intn(5) {
		case 0:
			x, err := t.ins.Get(tpl, path...)
			return fmt.Sprint("frget ", t.name, ti, path, " ", render(reflect.ValueOf(x)), " ", err)
		case 1:
			var b bool
			err := t.ins.Compare(tpl, inspector.Op(1+r.Intn(6)), strconv.Itoa(r.Intn(100)), &b, path...)
			return fmt.Sprint("frcmp ", t.name, ti, path, " ", b, " ", err)
		case 2:
			var n, c int
			err := t.ins.Length(tpl, &n, path...)
			err2 := t.ins.Capacity(tpl, &c, path...)
			return fmt.Sprint("frlen ", t.name, ti, path, " ", n, " ", c >= n, " ", err, err2)
		case 3:
			return fmt.Sprint("frdeq ", t.name, ti, " ", t.ins.DeepEqual(tpl, t.templates[0]), t.ins.DeepEqual(t.templates[len(t.templates)-1], tpl))
		}
		c, err := t.ins.Copy(tpl)
		return fmt.Sprint("frcopy ", t.name, ti, " ", render(reflect.ValueOf(c)), " ", err)
	})
}

// one operation of this population
func (d *flowState) step(r *rand.Rand) string {
	sl := &d.slots[r.Intn(len(d.slots))]
	switch c := r.Intn(20); {
	case c < 5:
		return d.flow(r, sl)
	case c < 7:
		// pooled reuse: the value that was handed a reference is the destination of the next copy
		return d.flow(r, sl) + " ; " + d.overwrite(r, sl)
	case c < 8:
		return d.cflow(r, sl, false)
	case c < 9:
		return d.cflow(r, sl, true)
	case c < 13:
		return d.mutate(r, sl)
	case c < 15:
		return d.overwrite(r, sl)
	case c < 16:
		return d.derive(r, sl)
	case c < 18:
		return d.read(r)
	case c < 19:
		return d.through(r, sl)
	default:
		if sl.v == nil {
			return "frb empty"
		}
		return "frb " + sl.t.name + " " + render(reflect.ValueOf(sl.v)) + d.verify(sl)
	}
}

// after ALL goroutines have finished writing: every private value is still what its goroutine left
func (d *flowState) final() string {
	out := "ffinal"
	for i := range d.slots {
		sl := &d.slots[i]
		if sl.v == nil {
			out += " | empty"
			continue
		}
		out += " | " + sl.t.name + " " + render(reflect.ValueOf(sl.v)) + d.verify(sl)
	}
	return out
}
