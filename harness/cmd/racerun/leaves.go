// leaves.go - the fourth population of racerun: EVERY LEAF of EVERY SHIPPED TYPE.
// For each inspector testobj_ins ships, shared templates are built by reflection over the
// type: every field filled, every slice and map with several elements, every pointer -
// pointer fields, pointer ELEMENTS of slices, pointer VALUES and pointer KEYS of maps -
// pointing to a cell of its own (a second template has some of the pointers nil).  Each
// goroutine obtains PRIVATE values from the templates with Copy, CopyTo with an own buffer,
// or CopyTo into an own earlier value after Reset, and then writes to EVERY kind of leaf its
// private value has - found by walking the value itself, so also the leaves that lie BEHIND
// pointers: Set, SetWithBuffer with the value's own buffer, Reset of the whole value, and the
// owner's direct writes into its own memory (the cell a pointer element, a pointer map value
// or a pointer map key of ITS value points to is its own) - while the other goroutines read
// the same templates (Get, Compare, DeepEqual, Copy) at the same paths.
//
// A copy owns everything that can be reached from it.  Oracles: (1) the race detector: a
// write to a private value that lands in a cell the template (or another goroutine's copy)
// reaches is a data race; (2) every call returns what it returns when the goroutine runs
// alone; (3) a private value is, whenever its goroutine looks at it again - and after all
// writers have finished -, exactly what the goroutine left there: the full rendering of the
// value, through every pointer, is compared with the one taken after the goroutine's last
// own write; (4) the templates are registered with the before / after oracle of scratch.go,
// whose rendering follows every pointer as well.
package main

import (
	"fmt"
	"math/rand"
	"reflect"
	"sort"
	"strconv"
	"strings"

	"github.com/koykov/inspector"
	"github.com/koykov/inspector/testobj"
	"github.com/koykov/inspector/testobj_ins"
	"verif/harness/emit"
)

// one shipped inspector with the type it inspects
type shippedType struct {
	name      string
	ins       inspector.Inspector
	typ       reflect.Type
	templates []any      // SHARED after init: read operations only (pointer form)
	tplText   []string   // their renderings when built
	tplLeaves [][]*vleaf // the leaves of each template (paths for the read operations)
}

func shippedOf(name string, ins inspector.Inspector, zero any) *shippedType {
	return &shippedType{name: name, ins: ins, typ: reflect.TypeOf(zero)}
}

// every inspector of testobj_ins
var shippedTypes = func() []*shippedType {
	ts := []*shippedType{
		shippedOf("TestObject1", testobj_ins.TestObject1Inspector{}, testobj.TestObject1{}),
		shippedOf("TestObject", testobj_ins.TestObjectInspector{}, testobj.TestObject{}),
		shippedOf("TestFinance", testobj_ins.TestFinanceInspector{}, testobj.TestFinance{}),
		shippedOf("TestHistory", testobj_ins.TestHistoryInspector{}, testobj.TestHistory{}),
		shippedOf("TestStruct", testobj_ins.TestStructInspector{}, testobj.TestStruct{}),
		shippedOf("TestFlag", testobj_ins.TestFlagInspector{}, testobj.TestFlag{}),
		shippedOf("TestPermission", testobj_ins.TestPermissionInspector{}, testobj.TestPermission{}),
		shippedOf("TestFloatSlice", testobj_ins.TestFloatSliceInspector{}, testobj.TestFloatSlice{}),
		shippedOf("TestFloatPtrSlice", testobj_ins.TestFloatPtrSliceInspector{}, testobj.TestFloatPtrSlice{}),
		shippedOf("TestStructSliceLiteral", testobj_ins.TestStructSliceLiteralInspector{}, testobj.TestStructSliceLiteral{}),
		shippedOf("TestStringFloatMap", testobj_ins.TestStringFloatMapInspector{}, testobj.TestStringFloatMap{}),
		shippedOf("TestStringFloatPtrMap", testobj_ins.TestStringFloatPtrMapInspector{}, testobj.TestStringFloatPtrMap{}),
		shippedOf("TestStringPtrFloatPtrMap", testobj_ins.TestStringPtrFloatPtrMapInspector{}, testobj.TestStringPtrFloatPtrMap{}),
	}
	for _, t := range ts {
		for _, sparse := range []bool{false, true} {
			f := &filler{sparse: sparse}
			p := reflect.New(t.typ)
			f.fill(p.Elem(), 0)
			t.templates = append(t.templates, p.Interface())
			t.tplText = append(t.tplText, render(p))
			notePtr(t.typ, 0)
			t.tplLeaves = append(t.tplLeaves, walkLeaves(p.Interface()))
		}
	}
	return ts
}()

// ---- building a template: every field, element, entry and pointer of a type ------------------

type filler struct {
	n      int
	ptrs   int
	sparse bool // every third pointer stays nil
}

func (f *filler) fill(v reflect.Value, depth int) {
	if depth > 8 {
		return
	}
	f.n++
	n := f.n
	switch v.Kind() {
	case reflect.Bool:
		v.SetBool(n%2 == 0)
	case reflect.Int, reflect.Int8, reflect.Int16, reflect.Int32, reflect.Int64:
		v.SetInt(int64(1 + n%100))
	case reflect.Uint, reflect.Uint8, reflect.Uint16, reflect.Uint32, reflect.Uint64:
		v.SetUint(uint64(1 + n%100))
	case reflect.Float32, reflect.Float64:
		v.SetFloat(float64(n%100) + 0.5)
	case reflect.String:
		v.SetString(heap("text " + strconv.Itoa(n)))
	case reflect.Ptr:
		f.ptrs++
		if f.sparse && f.ptrs%3 == 2 {
			return
		}
		p := reflect.New(v.Type().Elem())
		f.fill(p.Elem(), depth+1)
		v.Set(p)
	case reflect.Struct:
		for i := 0; i < v.NumField(); i++ {
			if v.Field(i).CanSet() {
				f.fill(v.Field(i), depth+1)
			}
		}
	case reflect.Slice:
		if v.Type().Elem().Kind() == reflect.Uint8 {
			text := "bytes " + strconv.Itoa(n)
			b := reflect.MakeSlice(v.Type(), len(text), len(text)+8)
			reflect.Copy(b, reflect.ValueOf([]byte(text)))
			v.Set(b)
			return
		}
		s := reflect.MakeSlice(v.Type(), 3, 4)
		for i := 0; i < 3; i++ {
			f.fill(s.Index(i), depth+1)
		}
		v.Set(s)
	case reflect.Map:
		m := reflect.MakeMap(v.Type())
		for try := 0; try < 6 && m.Len() < 2; try++ {
			k := reflect.New(v.Type().Key()).Elem()
			kf := &filler{n: f.n + try} // a key is never nil
			kf.fill(k, depth+1)
			f.n = kf.n
			if m.MapIndex(k).IsValid() {
				continue
			}
			e := reflect.New(v.Type().Elem()).Elem()
			f.fill(e, depth+1)
			m.SetMapIndex(k, e)
		}
		v.Set(m)
	}
}

// ---- the leaves of a value --------------------------------------------------------------------

// a scalar / text leaf of a value, found by walking the value
type vleaf struct {
	path []string      // the inspector's path to it (a pointer key is named by the text of what it points to)
	cell reflect.Value // the leaf itself; settable when the owner can write it directly
	key  bool          // the cell a pointer KEY of a map points to: part of the value, named by no path
	ptr  bool          // reached through a pointer below the root: a pointer field, element, map value or key
}

// the text of a map key as a path segment names it
func keyText(k reflect.Value) (string, bool) {
	for k.Kind() == reflect.Ptr {
		if k.IsNil() {
			return "", false
		}
		k = k.Elem()
	}
	switch k.Kind() {
	case reflect.String:
		return strings.Clone(k.String()), true
	case reflect.Bool:
		return strconv.FormatBool(k.Bool()), true
	case reflect.Int, reflect.Int8, reflect.Int16, reflect.Int32, reflect.Int64:
		return strconv.FormatInt(k.Int(), 10), true
	case reflect.Uint, reflect.Uint8, reflect.Uint16, reflect.Uint32, reflect.Uint64:
		return strconv.FormatUint(k.Uint(), 10), true
	case reflect.Float32:
		return strconv.FormatFloat(k.Float(), 'g', -1, 32), true
	case reflect.Float64:
		return strconv.FormatFloat(k.Float(), 'g', -1, 64), true
	}
	return "", false
}

func isLeafKind(k reflect.Kind) bool {
	switch k {
	case reflect.Bool, reflect.String, reflect.Int, reflect.Int8, reflect.Int16, reflect.Int32, reflect.Int64,
		reflect.Uint, reflect.Uint8, reflect.Uint16, reflect.Uint32, reflect.Uint64, reflect.Float32, reflect.Float64:
		return true
	}
	return false
}

// walkLeaves lists the leaves of v in a fixed order (maps: by the rendering of their entries)
func walkLeaves(v any) []*vleaf {
	var out []*vleaf
	var walk func(cur reflect.Value, path []string, depth int, ptr bool)
	walk = func(cur reflect.Value, path []string, depth int, ptr bool) {
		if depth > 12 || !cur.IsValid() {
			return
		}
		switch cur.Kind() {
		case reflect.Ptr, reflect.Interface:
			if !cur.IsNil() {
				walk(cur.Elem(), path, depth+1, ptr || (depth > 0 && cur.Kind() == reflect.Ptr))
			}
		case reflect.Struct:
			for i := 0; i < cur.NumField(); i++ {
				walk(cur.Field(i), append(path[:len(path):len(path)], cur.Type().Field(i).Name), depth+1, ptr)
			}
		case reflect.Slice:
			if cur.Type().Elem().Kind() == reflect.Uint8 {
				out = append(out, &vleaf{path: path, cell: cur, ptr: ptr})
				return
			}
			for i := 0; i < cur.Len(); i++ {
				walk(cur.Index(i), append(path[:len(path):len(path)], strconv.Itoa(i)), depth+1, ptr)
			}
		case reflect.Map:
			type ent struct {
				sortKey string
				k       reflect.Value
			}
			var es []ent
			it := cur.MapRange()
			for it.Next() {
				es = append(es, ent{render(it.Key()) + "=" + render(it.Value()), it.Key()})
			}
			sort.Slice(es, func(i, j int) bool { return es[i].sortKey < es[j].sortKey })
			for _, e := range es {
				seg, ok := keyText(e.k)
				if !ok {
					continue
				}
				p := append(path[:len(path):len(path)], seg)
				if e.k.Kind() == reflect.Ptr && isLeafKind(e.k.Type().Elem().Kind()) {
					out = append(out, &vleaf{path: p, cell: e.k.Elem(), key: true, ptr: true})
				}
				walk(cur.MapIndex(e.k), p, depth+1, ptr)
			}
		default:
			if isLeafKind(cur.Kind()) {
				out = append(out, &vleaf{path: path, cell: cur, ptr: ptr})
			}
		}
	}
	walk(reflect.ValueOf(v), nil, 0, false)
	return out
}

// render: a rendering of everything that can be reached from v, through every pointer; map entries
// ordered by key AND value (a map with pointer keys may hold two keys that point to equal numbers)
func render(v reflect.Value) string { return string(rend(make([]byte, 0, 256), v)) }

func rend(b []byte, v reflect.Value) []byte {
	if !v.IsValid() {
		return append(b, "none"...)
	}
	switch v.Kind() {
	case reflect.Bool:
		return strconv.AppendBool(b, v.Bool())
	case reflect.Int, reflect.Int8, reflect.Int16, reflect.Int32, reflect.Int64:
		return strconv.AppendInt(b, v.Int(), 10)
	case reflect.Uint, reflect.Uint8, reflect.Uint16, reflect.Uint32, reflect.Uint64:
		return strconv.AppendUint(b, v.Uint(), 10)
	case reflect.Float32:
		return strconv.AppendFloat(b, v.Float(), 'g', -1, 32)
	case reflect.Float64:
		return strconv.AppendFloat(b, v.Float(), 'g', -1, 64)
	case reflect.String:
		return strconv.AppendQuote(append(b, 's'), v.String())
	case reflect.Ptr:
		if v.IsNil() {
			return append(b, "nil"...)
		}
		return rend(append(b, '&'), v.Elem())
	case reflect.Interface:
		if v.IsNil() {
			return append(b, "none"...)
		}
		return rend(b, v.Elem())
	case reflect.Struct:
		b = append(b, '{')
		for i := 0; i < v.NumField(); i++ {
			if i > 0 {
				b = append(b, ',')
			}
			b = rend(b, v.Field(i))
		}
		return append(b, '}')
	case reflect.Slice:
		if v.IsNil() {
			return append(b, "nil"...)
		}
		if v.Type().Elem().Kind() == reflect.Uint8 {
			return strconv.AppendQuote(append(b, 'b'), string(v.Bytes()))
		}
		b = append(b, '[')
		for i := 0; i < v.Len(); i++ {
			if i > 0 {
				b = append(b, ',')
			}
			b = rend(b, v.Index(i))
		}
		return append(b, ']')
	case reflect.Map:
		if v.IsNil() {
			return append(b, "nil"...)
		}
		parts := make([]string, 0, v.Len())
		it := v.MapRange()
		for it.Next() {
			parts = append(parts, string(rend(append(rend(nil, it.Key()), '='), it.Value())))
		}
		sort.Strings(parts)
		b = append(b, '<')
		for i, p := range parts {
			if i > 0 {
				b = append(b, ',')
			}
			b = append(b, p...)
		}
		return append(b, '>')
	}
	return append(append(b, '?'), v.Kind().String()...)
}

// hasPtr: does a value of this type hold pointers to cells of its own below it (computed for the
// shipped types when the templates are built; read only afterwards)
var hasPtr = map[reflect.Type]bool{}

func notePtr(t reflect.Type, depth int) bool {
	if depth > 12 {
		return false
	}
	if h, ok := hasPtr[t]; ok {
		return h
	}
	h := false
	switch t.Kind() {
	case reflect.Ptr:
		notePtr(t.Elem(), depth+1)
		h = true
	case reflect.Struct:
		for i := 0; i < t.NumField(); i++ {
			if notePtr(t.Field(i).Type, depth+1) {
				h = true
			}
		}
	case reflect.Slice:
		h = notePtr(t.Elem(), depth+1)
	case reflect.Map:
		k, e := notePtr(t.Key(), depth+1), notePtr(t.Elem(), depth+1)
		h = k || e
	}
	hasPtr[t] = h
	return h
}

// pickLeaf goes down from the root of a private value, choosing at random a field, an element, an
// entry (the entries of a map in the order of their rendering), and, at a pointer key, the key's cell
// or the entry's value.  viaPtr: where there is a choice, take a way that leads through a pointer.
// nil: the way ended at a nil pointer or an empty collection.
func pickLeaf(r *rand.Rand, root any, viaPtr bool) *vleaf {
	cur := reflect.ValueOf(root)
	var path []string
	ptr := false
	for depth := 0; depth < 16; depth++ {
		switch cur.Kind() {
		case reflect.Ptr, reflect.Interface:
			if cur.IsNil() {
				return nil
			}
			ptr = ptr || (depth > 0 && cur.Kind() == reflect.Ptr)
			cur = cur.Elem()
		case reflect.Struct:
			var fs []int
			for i := 0; i < cur.NumField(); i++ {
				if !viaPtr || ptr || hasPtr[cur.Type().Field(i).Type] {
					fs = append(fs, i)
				}
			}
			if len(fs) == 0 {
				for i := 0; i < cur.NumField(); i++ {
					fs = append(fs, i)
				}
			}
			if len(fs) == 0 {
				return nil
			}
			i := fs[r.Intn(len(fs))]
			path = append(path, cur.Type().Field(i).Name)
			cur = cur.Field(i)
		case reflect.Slice:
			if cur.Type().Elem().Kind() == reflect.Uint8 {
				return &vleaf{path: path, cell: cur, ptr: ptr}
			}
			if cur.Len() == 0 {
				return nil
			}
			i := r.Intn(cur.Len())
			path = append(path, strconv.Itoa(i))
			cur = cur.Index(i)
		case reflect.Map:
			if cur.Len() == 0 {
				return nil
			}
			type ent struct {
				sortKey string
				k       reflect.Value
			}
			es := make([]ent, 0, cur.Len())
			it := cur.MapRange()
			for it.Next() {
				es = append(es, ent{string(rend(append(rend(nil, it.Key()), '='), it.Value())), it.Key()})
			}
			sort.Slice(es, func(i, j int) bool { return es[i].sortKey < es[j].sortKey })
			k := es[r.Intn(len(es))].k
			seg, ok := keyText(k)
			if !ok {
				return nil
			}
			path = append(path, seg)
			if k.Kind() == reflect.Ptr && isLeafKind(k.Type().Elem().Kind()) && r.Intn(3) == 0 {
				return &vleaf{path: path, cell: k.Elem(), key: true, ptr: true}
			}
			cur = cur.MapIndex(k)
		default:
			if isLeafKind(cur.Kind()) {
				return &vleaf{path: path, cell: cur, ptr: ptr}
			}
			return nil
		}
	}
	return nil
}

// ---- one goroutine's private values -------------------------------------------------------------

type lslot struct {
	t    *shippedType
	v    any                   // PRIVATE (pointer form)
	buf  *inspector.ByteBuffer // this value's own buffer
	how  string
	left string // the rendering of v after the goroutine's last own write to it
}

type leavesState struct {
	slots [2]lslot
	bad   []string
}

// a call of the inspector; a panic is a result like any other (compared with the run alone)
func guarded(f func() string) (res string) {
	defer func() {
		if e := recover(); e != nil {
			res = fmt.Sprint("panic: ", e)
		}
	}()
	return f()
}

func (d *leavesState) derive(r *rand.Rand, sl *lslot) string {
	t := shippedTypes[r.Intn(len(shippedTypes))]
	if r.Intn(2) == 0 {
		// the type with every declared form of a field, and the types made of pointers, more often
		t = shippedTypes[[]int{0, 0, 0, 8, 9, 11, 12}[r.Intn(7)]]
	}
	ti := r.Intn(len(t.templates))
	tpl := t.templates[ti]
	m := r.Intn(3)
	if m == 2 && (sl.v == nil || sl.t != t || sl.buf == nil) {
		m = 1
	}
	var (
		v   any
		how string
	)
	res := guarded(func() string {
		var err error
		switch m {
		case 0:
			how = "Copy"
			sl.buf = inspector.NewByteBuffer(32)
			v, err = t.ins.Copy(tpl)
		case 1:
			how = "CopyTo"
			v = reflect.New(t.typ).Interface()
			sl.buf = inspector.NewByteBuffer(r.Intn(3) * 96)
			err = t.ins.CopyTo(tpl, v, sl.buf)
		default:
			how = "Reset+CopyTo"
			v = sl.v
			_ = t.ins.Reset(v)
			sl.buf.Reset()
			err = t.ins.CopyTo(tpl, v, sl.buf)
		}
		return fmt.Sprint(err)
	})
	sl.t, sl.v, sl.how, sl.left = t, v, how, ""
	if v == nil || reflect.ValueOf(v).Kind() != reflect.Ptr || reflect.ValueOf(v).IsNil() {
		sl.v = nil
		return fmt.Sprint("lderive ", t.name, ti, " ", how, " -> nothing ", res)
	}
	sl.left = render(reflect.ValueOf(v))
	// the copy renders as its template does (and the inspector's own comparison, which reads the template)
	same := sl.left == t.tplText[ti]
	deq := guarded(func() string { return fmt.Sprint(t.ins.DeepEqual(v, tpl)) })
	return fmt.Sprint("lderive ", t.name, ti, " ", how, " same=", same, " deq=", deq, " ", res, " ", sl.left)
}

// the private value is what its goroutine left there
func (d *leavesState) verify(sl *lslot) string {
	if sl.v == nil || sl.left == "" {
		return ""
	}
	if now := render(reflect.ValueOf(sl.v)); now != sl.left {
		msg := fmt.Sprintf("%s value (%s): the goroutine left %s, it now holds %s", sl.t.name, sl.how, clip(sl.left, now), clip(now, sl.left))
		d.bad = append(d.bad, msg)
		sl.left = now
		return " FOREIGN[" + msg + "]"
	}
	return ""
}

// a value for a leaf of this kind, in one of the forms Set takes
func leafValue(r *rand.Rand, cell reflect.Value) (any, string) {
	n := r.Intn(100)
	switch k := cell.Kind(); {
	case k == reflect.Bool:
		b := r.Intn(2) == 0
		if r.Intn(3) == 0 {
			return strconv.FormatBool(b), fmt.Sprint(b)
		}
		return b, fmt.Sprint(b)
	case k == reflect.String || k == reflect.Slice:
		v, text := pick(r, 'b')
		return v, text
	case k == reflect.Float32 || k == reflect.Float64:
		f := float64(n) + 0.25*float64(r.Intn(4))
		switch r.Intn(4) {
		case 0:
			return reflect.ValueOf(f).Convert(cell.Type()).Interface(), fmt.Sprint(f)
		case 1:
			return strconv.FormatFloat(f, 'f', -1, 64), fmt.Sprint(f)
		case 2:
			return float32(f), fmt.Sprint(f)
		}
		return f, fmt.Sprint(f)
	default:
		switch r.Intn(5) {
		case 0:
			return reflect.ValueOf(n).Convert(cell.Type()).Interface(), fmt.Sprint(n)
		case 1:
			return strconv.Itoa(n), fmt.Sprint(n)
		case 2:
			b := []byte(strconv.Itoa(n))
			return &b, fmt.Sprint(n)
		case 3:
			return uint(n), fmt.Sprint(n)
		}
		return n, fmt.Sprint(n)
	}
}

// the owner writes its own memory
func writeCell(r *rand.Rand, cell reflect.Value) string {
	n := r.Intn(100)
	switch k := cell.Kind(); {
	case k == reflect.Bool:
		cell.SetBool(!cell.Bool())
	case k == reflect.String:
		cell.SetString(heap("own " + strconv.Itoa(n)))
	case k == reflect.Slice:
		// in place where there is room: the bytes are the value's own
		cell.SetBytes(append(cell.Bytes()[:0], "own "+strconv.Itoa(n)...))
	case k == reflect.Float32 || k == reflect.Float64:
		cell.SetFloat(float64(n) + 0.75)
	case k >= reflect.Int && k <= reflect.Int64:
		cell.SetInt(int64(n))
	default:
		cell.SetUint(uint64(n))
	}
	return render(cell)
}

func (d *leavesState) mutate(r *rand.Rand, sl *lslot) string {
	pre := ""
	if sl.v == nil {
		pre = d.derive(r, sl) + " ; "
		if sl.v == nil {
			return pre
		}
	}
	pre += d.verify(sl)
	// the leaves behind pointers as often as all the others together
	viaPtr := r.Intn(2) == 0
	var lf *vleaf
	for try := 0; try < 6 && lf == nil; try++ {
		lf = pickLeaf(r, sl.v, viaPtr)
	}
	if lf == nil {
		// emptied by Reset (or copied from nothing): the slot is filled again
		pre += d.derive(r, sl) + " ; "
		if sl.v == nil {
			return pre
		}
		for try := 0; try < 6 && lf == nil; try++ {
			lf = pickLeaf(r, sl.v, viaPtr)
		}
		if lf == nil {
			return pre + "lmut " + sl.t.name + " no leaf met"
		}
	}
	t := sl.t
	var how, res string
	m := r.Intn(6)
	if lf.key || (m == 5 && lf.cell.CanSet()) {
		how = "own"
		if lf.key {
			how = "own(key)"
		}
		res = writeCell(r, lf.cell)
	} else {
		val, text := leafValue(r, lf.cell)
		res = guarded(func() string {
			var err error
			if m >= 2 {
				how = "SetWithBuffer"
				err = t.ins.SetWithBuffer(sl.v, val, sl.buf, lf.path...)
			} else {
				how = "Set"
				err = t.ins.Set(sl.v, val, lf.path...)
			}
			return fmt.Sprint("<- ", text, " ", err)
		})
	}
	sl.left = render(reflect.ValueOf(sl.v))
	after := "gone"
	if el, ok := emit.NavNative(reflect.ValueOf(sl.v), lf.path); ok && !lf.key {
		after = render(el)
	}
	g := guarded(func() string {
		x, err := t.ins.Get(sl.v, lf.path...)
		return fmt.Sprint(emit.DumpDeref(reflect.ValueOf(x)), " ", err)
	})
	return fmt.Sprint(pre, "lmut ", t.name, " ", how, " ", strings.Join(lf.path, "."), " ", res, " : ", after, " get ", g)
}

// a read operation on a SHARED template, at the path of one of its leaves
func (d *leavesState) read(r *rand.Rand) string {
	t := shippedTypes[r.Intn(len(shippedTypes))]
	if r.Intn(2) == 0 {
		t = shippedTypes[[]int{0, 0, 0, 8, 9, 11, 12}[r.Intn(7)]]
	}
	ti := r.Intn(len(t.templates))
	tpl := t.templates[ti]
	ls := t.tplLeaves[ti]
	var path []string
	if len(ls) > 0 {
		path = ls[r.Intn(len(ls))].path
	}
	return guarded(func() string {
		switch r.Intn(4) {
		case 0:
			x, err := t.ins.Get(tpl, path...)
			return fmt.Sprint("lget ", t.name, ti, path, " ", emit.DumpDeref(reflect.ValueOf(x)), " ", err)
		case 1:
			var b bool
			err := t.ins.Compare(tpl, inspector.Op(1+r.Intn(6)), strconv.Itoa(r.Intn(100)), &b, path...)
			return fmt.Sprint("lcmp ", t.name, ti, path, " ", b, " ", err)
		case 2:
			return fmt.Sprint("ldeq ", t.name, ti, " ", t.ins.DeepEqual(tpl, t.templates[0]), t.ins.DeepEqual(t.templates[len(t.templates)-1], tpl))
		}
		c, err := t.ins.Copy(tpl)
		return fmt.Sprint("lcopy ", t.name, ti, " ", render(reflect.ValueOf(c)), " ", err)
	})
}

func (d *leavesState) reset(sl *lslot) string {
	if sl.v == nil {
		return "lreset empty"
	}
	pre := d.verify(sl)
	res := guarded(func() string { return fmt.Sprint(sl.t.ins.Reset(sl.v)) })
	sl.left = render(reflect.ValueOf(sl.v))
	return fmt.Sprint(pre, "lreset ", sl.t.name, " ", res, " ", sl.left)
}

// one operation of this population
func (d *leavesState) step(r *rand.Rand) string {
	sl := &d.slots[r.Intn(len(d.slots))]
	switch c := r.Intn(12); {
	case c < 6:
		return d.mutate(r, sl)
	case c < 8:
		return d.derive(r, sl)
	case c < 10:
		return d.read(r)
	case c == 10:
		if sl.v == nil {
			return "lrb empty"
		}
		return "lrb " + sl.t.name + " " + render(reflect.ValueOf(sl.v)) + d.verify(sl)
	default:
		return d.reset(sl)
	}
}

// after ALL goroutines have finished writing: every private value is still what its goroutine left
func (d *leavesState) final() string {
	out := "lfinal"
	for i := range d.slots {
		sl := &d.slots[i]
		if sl.v == nil {
			out += " | empty"
			continue
		}
		out += " | " + sl.t.name + " " + render(reflect.ValueOf(sl.v)) + d.verify(sl)
	}
	return out
}
