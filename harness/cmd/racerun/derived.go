// derived.go - the second population of racerun: PRIVATE values that are DERIVED from
// SHARED ones.  Every goroutine obtains its private values from shared templates with
// Copy, with CopyTo into a new destination with an own buffer, or with CopyTo into one
// of its own earlier values after Reset (pooled reuse); the templates are the shapes
// values have in a pool: bytes fields emptied with x = x[:0] (capacity kept, as the
// types' Clear and the inspectors' Reset leave them), empty strings, empty non-nil
// slices and maps, nil fields, and ordinary filled values.  The goroutine then writes
// ONLY to its private values - Set without a buffer and SetWithBuffer with the value's
// own buffer of int / uint / float / bool / string / bytes values into []byte, string,
// numeric, bool fields and map entries, appends through the references Get hands out,
// Reset - and reads them back.  Two oracles: (1) the race detector (a write to a private
// value that lands in memory another goroutine can reach is a data race), (2) every
// goroutine finds in its private values what it stored there itself (a shadow of the
// texts stored, kept by the goroutine, compared on every read-back and once more after
// all goroutines have finished writing), on top of the "same results as alone" comparison
// of every call.
package main

import (
	"fmt"
	"math/rand"
	"reflect"
	"strconv"
	"strings"

	"github.com/koykov/inspector"
	"github.com/koykov/inspector/testobj"
	"github.com/koykov/inspector/testobj_ins"
	"verif/harness/emit"
)

// a leaf of a private value the goroutine stores texts / numbers into
type leaf struct {
	path []string
	kind byte // 'b' []byte, 's' string, 'i' integer, 'f' float, 'o' bool
	// read the leaf directly (not through the inspector); ok = the path resolves in v
	read func(v any) (string, bool)
	// address of a []byte leaf, for appends through a reference (nil: not offered)
	ref func(v any) *[]byte
}

type family struct {
	name      string
	ins       inspector.Inspector
	templates []any      // SHARED after init: read operations only
	fresh     func() any // a new empty destination (pointer form)
	wrap      func(any) any
	leaves    []leaf
	// which values a text leaf takes (nil: every kind is converted to text)
	accepts func(v any, lf *leaf, val any) bool
	// StringAnyMapInspector.Copy starts with a nil buffer, so an empty []byte entry comes out nil or
	// empty-but-not-nil depending on whether it is the first text the map iteration meets: that is not
	// a matter of concurrency (it varies from call to call in a goroutine running alone as well), so
	// nil and empty are printed alike for this family
	looseNil bool
	// built-in containers: append to a bytes element without a reference
	appendTo func(v any, lf *leaf, text string) bool
}

func bytesAt(p *[]byte) (string, bool) {
	if p == nil {
		return "", false
	}
	return string(*p), true
}

func spare(n int) []byte { return make([]byte, 0, n) }

// cleared: filled, then emptied in place - text keeps its capacity
func cleared(s string) []byte { return []byte(s)[:0] }

func fullObj() *testobj.TestObject {
	p := testobj.TestPermission{15: true, 23: false}
	return &testobj.TestObject{
		Id: strings.Clone("identifier-0001"), Name: []byte("a name that is long enough to leave room"), Status: 78, Ustate: 4, Cost: 14.345, Permission: &p,
		HistoryTree: map[string]*testobj.TestHistory{"x": {DateUnix: 1, Cost: 2.5, Comment: []byte("first comment, with room to spare")}, "y": {DateUnix: 2, Cost: 3.5, Comment: []byte("c2")}},
		Flags:       testobj.TestFlag{"export": 17, "ro": 4},
		Finance: &testobj.TestFinance{MoneyIn: 3200, MoneyOut: 1500.637657, Balance: 9000, AllowBuy: true,
			History: []testobj.TestHistory{{DateUnix: 152354345634, Cost: 14.345241, Comment: []byte("pay for domain, a comment of some length")}, {DateUnix: 153465345246, Cost: 1325.65124, Comment: []byte("got refund")}}},
	}
}

func objTemplates() []any {
	// the type's own Clear: Name = Name[:0], map entries kept with emptied comments, History = History[:0]
	a := fullObj()
	a.Clear()
	// the inspector's Reset: text [:0], maps emptied (non-nil), slices [:0]
	b := fullObj()
	_ = testobj_ins.TestObjectInspector{}.Reset(b)
	// elements that stay in place with emptied text; empty non-nil maps, slices, text
	pe := testobj.TestPermission{}
	c := &testobj.TestObject{
		Id: "", Name: spare(48), Permission: &pe,
		HistoryTree: map[string]*testobj.TestHistory{"x": {Comment: cleared("a comment that was here before")}, "y": {Comment: []byte{}}, "z": nil},
		Flags:       testobj.TestFlag{},
		Finance:     &testobj.TestFinance{History: []testobj.TestHistory{{Comment: cleared("a comment of some length, reused later")}, {Comment: nil}, {Comment: []byte{}}}},
	}
	// emptied text next to filled text
	d := fullObj()
	d.Name = d.Name[:0]
	d.Finance.History[0].Comment = d.Finance.History[0].Comment[:0]
	d.HistoryTree["x"].Comment = d.HistoryTree["x"].Comment[:0]
	// empty containers with spare capacity, nothing behind the pointers
	e := &testobj.TestObject{Name: spare(16), HistoryTree: map[string]*testobj.TestHistory{}, Finance: &testobj.TestFinance{History: make([]testobj.TestHistory, 0, 4)}}
	return []any{a, b, c, d, e, fullObj(), &testobj.TestObject{}}
}

func objLeaves() []leaf {
	o := func(v any) *testobj.TestObject { p, _ := v.(*testobj.TestObject); return p }
	hist := func(v any, i int) *testobj.TestHistory {
		if x := o(v); x != nil && x.Finance != nil && len(x.Finance.History) > i {
			return &x.Finance.History[i]
		}
		return nil
	}
	tree := func(v any, k string) *testobj.TestHistory {
		if x := o(v); x != nil {
			return x.HistoryTree[k]
		}
		return nil
	}
	name := func(v any) *[]byte {
		if x := o(v); x != nil {
			return &x.Name
		}
		return nil
	}
	histC := func(i int) func(any) *[]byte {
		return func(v any) *[]byte {
			if h := hist(v, i); h != nil {
				return &h.Comment
			}
			return nil
		}
	}
	treeC := func(k string) func(any) *[]byte {
		return func(v any) *[]byte {
			if h := tree(v, k); h != nil {
				return &h.Comment
			}
			return nil
		}
	}
	viaRef := func(f func(any) *[]byte) func(any) (string, bool) {
		return func(v any) (string, bool) { return bytesAt(f(v)) }
	}
	ls := []leaf{
		{path: []string{"Name"}, kind: 'b', read: viaRef(name), ref: name},
		{path: []string{"Id"}, kind: 's', read: func(v any) (string, bool) {
			if x := o(v); x != nil {
				return strings.Clone(x.Id), true
			}
			return "", false
		}},
		{path: []string{"Status"}, kind: 'i', read: func(v any) (string, bool) { return fmt.Sprint(o(v).Status), true }},
		{path: []string{"Cost"}, kind: 'f', read: func(v any) (string, bool) { return fmt.Sprint(o(v).Cost), true }},
		{path: []string{"Finance", "Balance"}, kind: 'f', read: func(v any) (string, bool) {
			if x := o(v); x.Finance != nil {
				return fmt.Sprint(x.Finance.Balance), true
			}
			return "", false
		}},
		{path: []string{"Finance", "History", "0", "DateUnix"}, kind: 'i', read: func(v any) (string, bool) {
			if h := hist(v, 0); h != nil {
				return fmt.Sprint(h.DateUnix), true
			}
			return "", false
		}},
	}
	for i := 0; i < 3; i++ {
		ls = append(ls, leaf{path: []string{"Finance", "History", strconv.Itoa(i), "Comment"}, kind: 'b', read: viaRef(histC(i)), ref: histC(i)})
	}
	for _, k := range []string{"x", "y", "z"} {
		ls = append(ls, leaf{path: []string{"HistoryTree", k, "Comment"}, kind: 'b', read: viaRef(treeC(k)), ref: treeC(k)})
	}
	// map entries: Set inserts the key into the private value's own map
	for _, k := range []string{"export", "k1", "k2"} {
		k := k
		ls = append(ls, leaf{path: []string{"Flags", k}, kind: 'i', read: func(v any) (string, bool) {
			n, ok := o(v).Flags[k]
			return fmt.Sprint(n), ok
		}})
	}
	for _, k := range []int32{15, 40} {
		k := k
		ls = append(ls, leaf{path: []string{"Permission", fmt.Sprint(k)}, kind: 'o', read: func(v any) (string, bool) {
			if x := o(v); x.Permission != nil {
				n, ok := (*x.Permission)[k]
				return fmt.Sprint(n), ok
			}
			return "", false
		}})
	}
	return ls
}

func fullObj1() *testobj.TestObject1 {
	bs := []byte("bytes behind a pointer, long enough")
	return &testobj.TestObject1{
		IntSlice: []int32{1, 2, 3}, ByteSlice: []byte("a byte slice with some room in it"), ByteSlicePtr: &bs,
		StructSlice:     []testobj.TestStruct{{S: strings.Clone("struct text"), B: []byte("struct bytes with room"), I: 5}, {S: strings.Clone("second"), B: []byte("2nd")}},
		IntStringMap:    map[int]string{1: strings.Clone("one"), 2: strings.Clone("two")},
		StringFloatMap:  testobj.TestStringFloatMap{"pi": 3.14},
		NestedStruct:    testobj.TestStruct{S: strings.Clone("nested text"), B: []byte("nested bytes with room"), I64: 9},
		NestedStructPtr: &testobj.TestStruct{S: strings.Clone("nested ptr text"), B: []byte("nested ptr bytes with room"), U: 7},
	}
}

func obj1Templates() []any {
	a := fullObj1()
	_ = testobj_ins.TestObject1Inspector{}.Reset(a)
	eb := spare(32)
	b := &testobj.TestObject1{
		IntSlice: make([]int32, 0, 8), ByteSlice: spare(32), ByteSlicePtr: &eb,
		StructSlice:    []testobj.TestStruct{{B: cleared("struct bytes that were here")}, {B: []byte{}}},
		IntStringMap:   map[int]string{},
		StringFloatMap: testobj.TestStringFloatMap{},
		NestedStruct:   testobj.TestStruct{B: cleared("nested bytes that were here")}, NestedStructPtr: &testobj.TestStruct{B: cleared("nested ptr bytes that were here")},
	}
	c := fullObj1()
	c.ByteSlice = c.ByteSlice[:0]
	*c.ByteSlicePtr = (*c.ByteSlicePtr)[:0]
	c.StructSlice[0].B = c.StructSlice[0].B[:0]
	c.NestedStruct.B = c.NestedStruct.B[:0]
	c.NestedStructPtr.B = c.NestedStructPtr.B[:0]
	return []any{a, b, c, fullObj1(), &testobj.TestObject1{}}
}

func obj1Leaves() []leaf {
	o := func(v any) *testobj.TestObject1 { p, _ := v.(*testobj.TestObject1); return p }
	st := func(sel string) func(any) *testobj.TestStruct {
		return func(v any) *testobj.TestStruct {
			x := o(v)
			switch sel {
			case "0", "1":
				if i, _ := strconv.Atoi(sel); len(x.StructSlice) > i {
					return &x.StructSlice[i]
				}
				return nil
			case "n":
				return &x.NestedStruct
			}
			return x.NestedStructPtr
		}
	}
	viaRef := func(f func(any) *[]byte) func(any) (string, bool) {
		return func(v any) (string, bool) { return bytesAt(f(v)) }
	}
	bsl := func(v any) *[]byte { return &o(v).ByteSlice }
	bsp := func(v any) *[]byte { return o(v).ByteSlicePtr }
	ls := []leaf{
		{path: []string{"ByteSlice"}, kind: 'b', read: viaRef(bsl), ref: bsl},
		{path: []string{"ByteSlicePtr"}, kind: 'b', read: viaRef(bsp), ref: bsp},
		{path: []string{"IntSlice", "1"}, kind: 'i', read: func(v any) (string, bool) {
			if x := o(v); len(x.IntSlice) > 1 {
				return fmt.Sprint(x.IntSlice[1]), true
			}
			return "", false
		}},
		{path: []string{"StringFloatMap", "e"}, kind: 'f', read: func(v any) (string, bool) {
			n, ok := o(v).StringFloatMap["e"]
			return fmt.Sprint(n), ok
		}},
		{path: []string{"IntStringMap", "7"}, kind: 's', read: func(v any) (string, bool) {
			s, ok := o(v).IntStringMap[7]
			return strings.Clone(s), ok
		}},
	}
	for _, e := range []struct {
		sel  string
		path []string
	}{{"0", []string{"StructSlice", "0"}}, {"1", []string{"StructSlice", "1"}}, {"n", []string{"NestedStruct"}}, {"p", []string{"NestedStructPtr"}}} {
		f := st(e.sel)
		b := func(v any) *[]byte {
			if s := f(v); s != nil {
				return &s.B
			}
			return nil
		}
		ls = append(ls,
			leaf{path: append(append([]string{}, e.path...), "B"), kind: 'b', read: viaRef(b), ref: b},
			leaf{path: append(append([]string{}, e.path...), "S"), kind: 's', read: func(v any) (string, bool) {
				if s := f(v); s != nil {
					return strings.Clone(s.S), true
				}
				return "", false
			}},
			leaf{path: append(append([]string{}, e.path...), "I"), kind: 'i', read: func(v any) (string, bool) {
				if s := f(v); s != nil {
					return fmt.Sprint(s.I), true
				}
				return "", false
			}})
	}
	return ls
}

// built-in: StringsInspector over [][]byte and []string
func strsLeaves() []leaf {
	var ls []leaf
	for i := 0; i < 3; i++ {
		i := i
		ref := func(v any) *[]byte {
			if p, ok := v.(*[][]byte); ok && len(*p) > i {
				return &(*p)[i]
			}
			return nil
		}
		ls = append(ls, leaf{path: []string{strconv.Itoa(i)}, kind: 'b', ref: ref, read: func(v any) (string, bool) {
			if p, ok := v.(*[]string); ok {
				if len(*p) > i {
					return strings.Clone((*p)[i]), true
				}
				return "", false
			}
			return bytesAt(ref(v))
		}})
	}
	return ls
}

// built-in: StringAnyMapInspector
func anyLeaves() []leaf {
	m := func(v any) map[string]any {
		if p, ok := v.(*map[string]any); ok && p != nil {
			return *p
		}
		return nil
	}
	text := func(x any, ok bool) (string, bool) {
		switch t := x.(type) {
		case []byte:
			return string(t), ok
		case string:
			return strings.Clone(t), ok
		}
		return fmt.Sprint(x), ok
	}
	var ls []leaf
	for _, k := range []string{"e", "s", "full", "new"} {
		k := k
		ls = append(ls, leaf{path: []string{k}, kind: 'b', read: func(v any) (string, bool) { x, ok := m(v)[k]; return text(x, ok) }})
	}
	for _, k := range []string{"e", "new"} {
		k := k
		ls = append(ls, leaf{path: []string{"n", k}, kind: 'b', read: func(v any) (string, bool) {
			n, _ := m(v)["n"].(map[string]any)
			x, ok := n[k]
			return text(x, ok)
		}})
	}
	return ls
}

var families = func() []*family {
	ptrTo := func(x any) any { // Copy of the built-in inspectors hands out the container itself
		switch t := x.(type) {
		case []string:
			return &t
		case [][]byte:
			return &t
		case map[string]any:
			return &t
		}
		return x
	}
	return []*family{
		{name: "obj", ins: testobj_ins.TestObjectInspector{}, templates: objTemplates(), fresh: func() any { return &testobj.TestObject{} }, leaves: objLeaves()},
		{name: "obj1", ins: testobj_ins.TestObject1Inspector{}, templates: obj1Templates(), fresh: func() any { return &testobj.TestObject1{} }, leaves: obj1Leaves()},
		{name: "strs", ins: inspector.StringsInspector{}, wrap: ptrTo, fresh: func() any { return new([][]byte) }, leaves: strsLeaves(),
			templates: []any{
				&[][]byte{cleared("bytes that were here"), []byte("abc"), {}},
				&[]string{"", strings.Clone("alpha"), ""},
				&[][]byte{[]byte("first"), spare(24), cleared("third")},
			},
			// an element takes text of its own kind only
			accepts: func(v any, lf *leaf, val any) bool {
				_, strs := v.(*[]string)
				switch val.(type) {
				case []byte, *[]byte:
					return !strs
				case string, *string:
					return strs
				}
				return false
			},
		},
		{name: "anymap", looseNil: true, ins: inspector.StringAnyMapInspector{}, wrap: ptrTo, fresh: func() any { m := map[string]any{}; return &m }, leaves: anyLeaves(),
			templates: []any{
				&map[string]any{"e": cleared("bytes that were here"), "s": "", "full": []byte("filled"), "n": map[string]any{"e": spare(24)}, "i": 5},
				&map[string]any{},
				&map[string]any{"e": []byte{}, "n": map[string]any{}},
			},
			appendTo: func(v any, lf *leaf, text string) bool {
				p, _ := v.(*map[string]any)
				if p == nil || *p == nil {
					return false
				}
				m := *p
				if len(lf.path) == 2 {
					m, _ = m[lf.path[0]].(map[string]any)
				}
				b, ok := m[lf.path[len(lf.path)-1]].([]byte)
				if !ok {
					return false
				}
				m[lf.path[len(lf.path)-1]] = append(b, text...)
				return true
			},
		},
	}
}()

// one private value of a goroutine
type slot struct {
	fam  *family
	v    any                   // PRIVATE
	buf  *inspector.ByteBuffer // this value's own buffer
	want map[string]string     // leaf -> the text this goroutine stored there last
	how  string
}

type derivedState struct {
	slots [3]slot
	bad   []string // a private value did not hold what its goroutine stored there
}

func (d *derivedState) derive(r *rand.Rand, sl *slot) string {
	// generated inspectors more often than the built-in ones
	fam := families[[]int{0, 0, 0, 1, 1, 2, 3}[r.Intn(7)]]
	ti := r.Intn(len(fam.templates))
	tpl := fam.templates[ti]
	var (
		v   any
		err error
		how string
	)
	m := r.Intn(3)
	if m == 2 && (sl.v == nil || sl.fam != fam || sl.buf == nil) {
		m = 1
	}
	switch m {
	case 0:
		how = "Copy"
		v, err = fam.ins.Copy(tpl)
		if fam.wrap != nil {
			v = fam.wrap(v)
		}
		sl.buf = inspector.NewByteBuffer(32)
	case 1:
		how = "CopyTo"
		v = fam.fresh()
		sl.buf = inspector.NewByteBuffer(r.Intn(3) * 96)
		err = fam.ins.CopyTo(tpl, v, sl.buf)
	case 2:
		// pooled reuse of an own value: Reset, then CopyTo with its own buffer, emptied
		how = "Reset+CopyTo"
		v = sl.v
		_ = fam.ins.Reset(v)
		sl.buf.Reset()
		err = fam.ins.CopyTo(tpl, v, sl.buf)
	}
	sl.fam, sl.v, sl.how = fam, v, how
	sl.want = map[string]string{}
	if v == nil || reflect.ValueOf(v).Kind() != reflect.Ptr || reflect.ValueOf(v).IsNil() {
		sl.v = nil
		return fmt.Sprint("derive ", fam.name, ti, " ", how, " -> nothing ", err)
	}
	return fmt.Sprint("derive ", fam.name, ti, " ", how, " ", emit.Dump(reflect.ValueOf(v).Elem()), " deq=", fam.ins.DeepEqual(v, tpl), " ", err)
}

// a value to store and the text a text leaf then holds / the number a numeric leaf then holds
func pick(r *rand.Rand, kind byte) (any, string) {
	n := r.Int63n(int64(1) << uint(1+r.Intn(40)))
	switch kind {
	case 'i':
		n %= 1 << 20
		return int32(n), fmt.Sprint(n)
	case 'f':
		f := float64(n%100000) + 0.25*float64(r.Intn(4))
		return f, fmt.Sprint(f)
	case 'o':
		b := r.Intn(2) == 0
		return b, fmt.Sprint(b)
	}
	switch r.Intn(9) {
	case 0:
		return int(n), strconv.FormatInt(n, 10)
	case 1:
		return -n, strconv.FormatInt(-n, 10)
	case 2:
		return uint32(n), strconv.FormatUint(uint64(uint32(n)), 10)
	case 3:
		f := float64(n%1000000) + 0.5
		return f, strconv.FormatFloat(f, 'f', -1, 64)
	case 4:
		b := r.Intn(2) == 0
		return b, strconv.FormatBool(b)
	case 5:
		// a string of its own on the heap (never a constant: a later conversion in place may reuse its bytes)
		s := "s" + strconv.FormatInt(n, 10)
		return strings.Clone(s), s
	case 6:
		s := "b" + strconv.FormatInt(n, 10)
		return []byte(s), s
	case 7:
		s := "p" + strconv.FormatInt(n, 10)
		b := []byte(s)
		return &b, s
	}
	return int64(n), strconv.FormatInt(n, 10)
}

func key(lf *leaf) string { return strings.Join(lf.path, ".") }

func (d *derivedState) mutate(r *rand.Rand, sl *slot) string {
	pre := ""
	if sl.v == nil {
		pre = d.derive(r, sl) + " ; "
		if sl.v == nil {
			return pre
		}
	}
	fam := sl.fam
	lf := &fam.leaves[r.Intn(len(fam.leaves))]
	if r.Intn(4) > 0 {
		// mostly a leaf that is there (a path that does not resolve makes Set a no-op or creates the way to it)
		var there []*leaf
		for i := range fam.leaves {
			if _, ok := fam.leaves[i].read(sl.v); ok {
				there = append(there, &fam.leaves[i])
			}
		}
		if len(there) > 0 {
			lf = there[r.Intn(len(there))]
		}
	}
	val, text := pick(r, lf.kind)
	before, resolved := lf.read(sl.v)
	takes := fam.accepts == nil || fam.accepts(sl.v, lf, val)
	var (
		how string
		err error
	)
	switch m := r.Intn(5); {
	case m == 4 && lf.kind == 'b' && (lf.ref != nil || fam.appendTo != nil):
		// append through the reference Get returns (or, for a built-in container, to the element itself)
		how = "append"
		done := false
		if lf.ref != nil {
			g, gerr := fam.ins.Get(sl.v, lf.path...)
			err = gerr
			if p, ok := g.(*[]byte); ok && p != nil && p == lf.ref(sl.v) {
				*p = append(*p, text...)
				done = true
			}
		} else {
			done = fam.appendTo(sl.v, lf, text)
		}
		if done {
			sl.want[key(lf)] = before + text
		}
	case m >= 2:
		how = "SetWithBuffer"
		err = fam.ins.SetWithBuffer(sl.v, val, sl.buf, lf.path...)
		if resolved && takes {
			sl.want[key(lf)] = text
		} else if !resolved {
			delete(sl.want, key(lf))
		}
	default:
		how = "Set"
		err = fam.ins.Set(sl.v, val, lf.path...)
		if resolved && takes {
			sl.want[key(lf)] = text
		} else if !resolved {
			delete(sl.want, key(lf))
		}
	}
	after, ok := lf.read(sl.v)
	g, gerr := fam.ins.Get(sl.v, lf.path...)
	return fmt.Sprint(pre, "mut ", fam.name, " ", how, " ", key(lf), " <- ", text, " : ", after, ok, " get ", emit.DumpDeref(reflect.ValueOf(g)), " ", err, gerr) + d.verify(sl)
}

// every leaf this goroutine stored into holds what it stored
func (d *derivedState) verify(sl *slot) string {
	if sl.v == nil {
		return ""
	}
	out := ""
	for i := range sl.fam.leaves {
		lf := &sl.fam.leaves[i]
		w, has := sl.want[key(lf)]
		if !has {
			continue
		}
		got, ok := lf.read(sl.v)
		if !ok || got != w {
			msg := fmt.Sprintf("%s value (%s): %s holds %q, the goroutine stored %q", sl.fam.name, sl.how, key(lf), got, w)
			d.bad = append(d.bad, msg)
			out += " FOREIGN[" + msg + "]"
		}
	}
	return out
}

func (d *derivedState) readback(sl *slot) string {
	if sl.v == nil {
		return "rb empty"
	}
	return "rb " + sl.fam.name + " " + emit.Dump(reflect.ValueOf(sl.v).Elem()) + d.verify(sl)
}

func (d *derivedState) reset(sl *slot) string {
	if sl.v == nil {
		return "reset empty"
	}
	err := sl.fam.ins.Reset(sl.v)
	// what Reset leaves is compared with the run alone; the shadow starts again
	sl.want = map[string]string{}
	return fmt.Sprint("reset ", sl.fam.name, " ", emit.Dump(reflect.ValueOf(sl.v).Elem()), " ", err)
}

// one operation of the derived population
func (d *derivedState) step(r *rand.Rand) string {
	sl := &d.slots[r.Intn(len(d.slots))]
	var res string
	switch c := r.Intn(10); {
	case c < 6:
		res = d.mutate(r, sl)
	case c < 8:
		res = d.derive(r, sl)
	case c == 8:
		res = d.readback(sl)
	default:
		res = d.reset(sl)
	}
	return loose(sl, res)
}

func loose(sl *slot, res string) string {
	if sl.fam != nil && sl.fam.looseNil {
		// texts are printed in hex, so the letters n-i-l can only be the nil marker
		return strings.ReplaceAll(res, "nil", "b")
	}
	return res
}

// after ALL goroutines have finished writing: every private value still holds its goroutine's texts
func (d *derivedState) final() string {
	out := "final"
	for i := range d.slots {
		out += " | " + loose(&d.slots[i], d.readback(&d.slots[i]))
	}
	return out
}
