// scratch.go - the third population of racerun: per-goroutine SCRATCH STATE that is
// REUSED across consecutive read operations on SHARED values, the way a caller that
// serves many requests holds it: ONE key buffer (*[]byte) for all its Loop calls, ONE
// iterator object, ONE result buffer (*any) for all its GetTo calls, ONE bool for all
// its Compare calls, ONE int for Length / Capacity, ONE ByteBuffer for the writes to its
// own private value.  The goroutine mixes - on the SAME shared values - loops over
// string-keyed maps (string, named string, *string keys), over int- / float- / pointer-
// keyed maps, over slices of every declared form, and over the built-in containers
// ([]string, [][]byte, map[string]any), with iterators that ask for the key (and read
// it at once or keep the reference until Iterate) or do not; between the calls it uses
// its key buffer for texts of its own, as an owner may.
//
// Scratch state is the caller's own memory: whatever an operation leaves in it, the next
// operation - or the caller - overwrites.  So nothing an operation leaves there may be
// memory of the shared value.  Oracles: (1) the race detector, (2) every call returns
// what it returns when the goroutine runs alone (collections without an order: as a
// sorted multiset), (3) every shared value of the run is, after all goroutines have
// finished - and once more after the runs alone -, what it was before they started:
// a rendering taken before the start is compared (read operations leave a value
// unchanged), and every key a map hands out when iterated is found again when looked up.
//
// Map keys of the shared values are strings on the heap (built at run time, as decoded
// data is), never literals: a write into a literal faults the process instead of being
// reported.
package main

import (
	"fmt"
	"math/rand"
	"reflect"
	"sort"
	"strconv"
	"strings"

	"github.com/koykov/inspector"
	"github.com/koykov/inspector/testobj"
	"github.com/koykov/inspector/testobj_ins"
	"verif/harness/emit"
)

// heap: a copy of s allocated at run time
func heap(s string) string { return strings.Clone(s) }

func heapP(s string) *string { c := strings.Clone(s); return &c }

type loopPath struct {
	path    []string
	ordered bool // a slice: keys are indexes, order is part of the result, break / continue are deterministic
}

type cmpCase struct {
	path  []string
	right string
}

// one shared value with its inspector and the places read operations are aimed at
type target struct {
	name  string
	ins   inspector.Inspector
	v     any // SHARED: read operations only
	twin  any // the same content in other memory, SHARED as well: the other operand of DeepEqual
	loops []loopPath
	gets  [][]string
	cmps  []cmpCase
	lens  [][]string
	deq   bool
}

var (
	flagKeys = []string{"export", "import", "archive", "readonly", "x"}
	treeKeys = []string{"x100", "y200", "z300", "a-long-key-of-the-history-tree"}
)

func scratchObj() *testobj.TestObject {
	p := testobj.TestPermission{15: true, 23: false, -7: true, 1234567: false}
	o := &testobj.TestObject{
		Id: heap("identifier"), Name: []byte("a name"), Status: 78, Ustate: 4, Cost: 14.345, Permission: &p,
		HistoryTree: map[string]*testobj.TestHistory{}, Flags: testobj.TestFlag{},
		Finance: &testobj.TestFinance{MoneyIn: 3200, MoneyOut: 1500.637657, Balance: 9000, AllowBuy: true},
	}
	for i, k := range flagKeys {
		o.Flags[heap(k)] = int32(i + 1)
	}
	for i, k := range treeKeys {
		o.HistoryTree[heap(k)] = &testobj.TestHistory{DateUnix: int64(1000 + i), Cost: float64(i) + 0.5, Comment: []byte("comment of " + k)}
	}
	// more than ten elements: indexes of one and of two digits
	for i := 0; i < 12; i++ {
		o.Finance.History = append(o.Finance.History, testobj.TestHistory{DateUnix: int64(152354345634 + i), Cost: 14.25 * float64(i), Comment: []byte("payment " + strconv.Itoa(i))})
	}
	return o
}

func scratchObj1() *testobj.TestObject1 {
	i32 := func(n int32) *int32 { return &n }
	by := func(n byte) *byte { return &n }
	f32 := func(n float32) *float32 { return &n }
	f64 := func(n float64) *float64 { return &n }
	in := func(n int) *int { return &n }
	st := func(i int) testobj.TestStruct {
		return testobj.TestStruct{A: byte(i), S: heap("text " + strconv.Itoa(i)), B: []byte("bytes " + strconv.Itoa(i)), I: i, I64: int64(i) << 33, U: uint(i), F: 0.5 * float32(i), D: 0.25 * float64(i)}
	}
	stp := func(i int) *testobj.TestStruct { s := st(i); return &s }
	o := &testobj.TestObject1{
		IntSlice: []int32{1, 2, 3}, IntPtrSlice: []*int32{i32(4), nil, i32(6)},
		IntSlicePtr: &[]int32{7, 8}, IntPtrSlicePtr: &[]*int32{i32(9), i32(10)},
		ByteSlice: []byte("a byte slice"), BytePtrSlice: []*byte{by(65), by(66)}, BytePtrSlicePtr: &[]*byte{by(67)},
		FloatSlice: testobj.TestFloatSlice{1.5, 2.5, 3.5}, FloatPtrSlice: testobj.TestFloatPtrSlice{f32(4.5), f32(5.5)},
		FloatSlicePtr: &testobj.TestFloatSlice{6.5}, FloatPtrSlicePtr: &testobj.TestFloatPtrSlice{f32(7.5), nil},
		StructSlice: []testobj.TestStruct{st(1), st(2), st(3)}, StructPtrSlice: []*testobj.TestStruct{stp(4), stp(5)},
		StructSlicePtr: &[]testobj.TestStruct{st(6)}, StructPtrSlicePtr: &[]*testobj.TestStruct{stp(7), stp(8)},
		StructSliceLiteral:    testobj.TestStructSliceLiteral{stp(9), stp(10)},
		IntStringMap:          map[int]string{1: heap("one"), 22: heap("twenty-two"), -333: heap("minus")},
		IntStringPtrMap:       map[int]*string{4: heapP("four"), 55: heapP("fifty-five")},
		IntStringMapPtr:       &map[int]string{6: heap("six"), 7777: heap("many sevens")},
		IntStringPtrMapPtr:    &map[int]*string{8: heapP("eight")},
		IntPtrStringPtrMapPtr: &map[*int]*string{in(9): heapP("nine"), in(1010): heapP("ten-ten")},
		IntIntMapMap:          map[int32]map[int32]int32{1: {11: 111, 12: 112}, 2: {21: 221}},
		StringFloatMap:        testobj.TestStringFloatMap{}, StringFloatPtrMap: testobj.TestStringFloatPtrMap{},
		StringFloatMapPtr: &testobj.TestStringFloatMap{}, StringFloatPtrMapPtr: &testobj.TestStringFloatPtrMap{},
		StringPtrFloatPtrMapPtr: &testobj.TestStringPtrFloatPtrMap{},
		FloatStructMap:          map[float64]testobj.TestStruct{1.5: st(11), 1024: st(12)},
		FloatStructPtrMap:       map[float64]*testobj.TestStruct{2.25: stp(13), -3: stp(14)},
		FloatPtrStructMap:       map[*float64]testobj.TestStruct{f64(3.75): st(15)},
		FloatPtrStructPtrMap:    map[*float64]*testobj.TestStruct{f64(4.125): stp(16), f64(5): stp(17)},
		FloatPtrStructPtrMapPtr: &map[*float64]*testobj.TestStruct{f64(6.5): stp(18)},
		NestedStruct:            st(19), NestedStructPtr: stp(20),
	}
	bs := []byte("bytes behind a pointer")
	o.ByteSlicePtr = &bs
	for i, k := range []string{"pi", "euler", "a-longer-key-of-a-float-map"} {
		o.StringFloatMap[heap(k)] = float64(i) + 0.5
		o.StringFloatPtrMap[heap(k)] = f64(float64(i) + 1.5)
		(*o.StringFloatMapPtr)[heap(k)] = float64(i) + 2.5
		(*o.StringFloatPtrMapPtr)[heap(k)] = f64(float64(i) + 3.5)
		(*o.StringPtrFloatPtrMapPtr)[heapP(k)] = f64(float64(i) + 4.5)
	}
	return o
}

func scratchAnyMap() map[string]any {
	return map[string]any{
		heap("alpha"): 1, heap("beta"): heap("two"), heap("gamma"): []byte("three"),
		heap("nested"): map[string]any{heap("delta"): 4.5, heap("epsilon-a-longer-key"): []byte("five")},
	}
}

func sl(ps ...string) loopPath { return loopPath{path: ps, ordered: true} }
func mp(ps ...string) loopPath { return loopPath{path: ps} }

// built twice: the shared value and its twin
func buildTargets() []*target {
	both := func(t *target, build func() any) *target {
		t.v, t.twin = build(), build()
		return t
	}
	obj1Loops := []loopPath{}
	for _, f := range []string{"IntSlice", "IntPtrSlice", "IntSlicePtr", "IntPtrSlicePtr", "BytePtrSlice", "BytePtrSlicePtr", "FloatSlice", "FloatPtrSlice",
		"FloatSlicePtr", "FloatPtrSlicePtr", "StructSlice", "StructPtrSlice", "StructSlicePtr", "StructPtrSlicePtr", "StructSliceLiteral"} {
		obj1Loops = append(obj1Loops, sl(f))
	}
	for _, f := range []string{"IntStringMap", "IntStringPtrMap", "IntStringMapPtr", "IntStringPtrMapPtr", "IntPtrStringPtrMapPtr", "IntIntMapMap",
		"StringFloatMap", "StringFloatPtrMap", "StringFloatMapPtr", "StringFloatPtrMapPtr", "StringPtrFloatPtrMapPtr",
		"FloatStructMap", "FloatStructPtrMap", "FloatPtrStructMap", "FloatPtrStructPtrMap", "FloatPtrStructPtrMapPtr"} {
		obj1Loops = append(obj1Loops, mp(f))
	}
	// the text-keyed maps once more: they are met as often as the other collections together
	for _, f := range []string{"StringFloatMap", "StringFloatPtrMap", "StringFloatMapPtr", "StringFloatPtrMapPtr", "StringPtrFloatPtrMapPtr"} {
		obj1Loops = append(obj1Loops, mp(f), mp(f))
	}
	obj1Loops = append(obj1Loops, mp("IntIntMapMap", "1"), mp("NestedStruct"), mp("Nope"), mp("StructSlice", "1"))
	fm := func() any {
		m := testobj.TestStringFloatMap{}
		for i, k := range []string{"pi", "euler", "a-longer-key-of-a-float-map"} {
			m[heap(k)] = float64(i) + 0.5
		}
		return &m
	}
	return []*target{
		both(&target{name: "obj", ins: testobj_ins.TestObjectInspector{}, deq: true,
			loops: []loopPath{mp("Flags"), mp("Flags"), mp("HistoryTree"), mp("HistoryTree"), mp("Permission"), sl("Finance", "History"), sl("Finance", "History"),
				mp("Nope"), mp("Finance"), mp("Flags", "export"), mp("HistoryTree", "x100")},
			gets: [][]string{{"Id"}, {"Name"}, {"Status"}, {"Flags", "readonly"}, {"Flags", "nokey"}, {"HistoryTree", "z300", "Comment"}, {"HistoryTree", "a-long-key-of-the-history-tree", "DateUnix"},
				{"Finance", "History", "11", "Comment"}, {"Finance", "History", "12"}, {"Permission", "-7"}, {"Permission"}, {"Nope"}},
			cmps: []cmpCase{{[]string{"Flags", "archive"}, "3"}, {[]string{"HistoryTree", "y200", "DateUnix"}, "1001"}, {[]string{"Id"}, "identifier"},
				{[]string{"Finance", "History", "10", "Comment"}, "payment 10"}, {[]string{"Flags", "nokey"}, "nil"}, {[]string{"Permission", "1234567"}, "false"}},
			lens: [][]string{{"Flags"}, {"HistoryTree"}, {"Finance", "History"}, {"Name"}, {"Permission"}, {"Id"}},
		}, func() any { return scratchObj() }),
		both(&target{name: "obj1", ins: testobj_ins.TestObject1Inspector{}, loops: obj1Loops,
			gets: [][]string{{"StringFloatMap", "pi"}, {"StringFloatPtrMap", "euler"}, {"StringFloatMapPtr", "a-longer-key-of-a-float-map"}, {"IntStringMap", "22"}, {"IntStringPtrMap", "55"},
				{"StructSlice", "2", "S"}, {"StructPtrSlice", "1", "B"}, {"FloatStructMap", "1.5", "S"}, {"IntIntMapMap", "1", "12"}, {"NestedStructPtr", "S"}, {"IntSlice", "9"}, {"ByteSlicePtr"}},
			cmps: []cmpCase{{[]string{"StringFloatMap", "euler"}, "1.5"}, {[]string{"IntStringMap", "1"}, "one"}, {[]string{"StructSlice", "0", "S"}, "text 1"}, {[]string{"NestedStruct", "I"}, "19"},
				{[]string{"StringFloatPtrMapPtr", "nokey"}, "nil"}},
			lens: [][]string{{"StringFloatMap"}, {"IntStringMap"}, {"StructSlice"}, {"ByteSlice"}, {"IntIntMapMap", "1"}, {"StringPtrFloatPtrMapPtr"}},
		}, func() any { return scratchObj1() }),
		both(&target{name: "flag", ins: testobj_ins.TestFlagInspector{}, deq: true, loops: []loopPath{mp(), mp("export")},
			gets: [][]string{{"import"}, {"nokey"}}, cmps: []cmpCase{{[]string{"readonly"}, "4"}}, lens: [][]string{{}},
		}, func() any { return &scratchObj().Flags }),
		both(&target{name: "strfloat", ins: testobj_ins.TestStringFloatMapInspector{}, deq: true, loops: []loopPath{mp()},
			gets: [][]string{{"pi"}, {"nokey"}}, cmps: []cmpCase{{[]string{"euler"}, "1.5"}}, lens: [][]string{{}},
		}, fm),
		both(&target{name: "strfloatptr", ins: testobj_ins.TestStringFloatPtrMapInspector{}, loops: []loopPath{mp()},
			gets: [][]string{{"pi"}}, cmps: []cmpCase{{[]string{"euler"}, "2.5"}}, lens: [][]string{{}},
		}, func() any { return &scratchObj1().StringFloatPtrMap }),
		both(&target{name: "strptrfloatptr", ins: testobj_ins.TestStringPtrFloatPtrMapInspector{}, loops: []loopPath{mp()},
			gets: [][]string{{"pi"}}, cmps: []cmpCase{{[]string{"euler"}, "5.5"}}, lens: [][]string{{}},
		}, func() any { return scratchObj1().StringPtrFloatPtrMapPtr }),
		both(&target{name: "perm", ins: testobj_ins.TestPermissionInspector{}, deq: true, loops: []loopPath{mp()},
			gets: [][]string{{"15"}, {"99"}}, cmps: []cmpCase{{[]string{"-7"}, "true"}}, lens: [][]string{{}},
		}, func() any { return scratchObj().Permission }),
		both(&target{name: "floats", ins: testobj_ins.TestFloatSliceInspector{}, deq: true, loops: []loopPath{sl()},
			gets: [][]string{{"1"}, {"5"}}, cmps: []cmpCase{{[]string{"0"}, "1.5"}}, lens: [][]string{{}},
		}, func() any { return &scratchObj1().FloatSlice }),
		both(&target{name: "structs", ins: testobj_ins.TestStructSliceLiteralInspector{}, loops: []loopPath{sl(), sl("0")},
			gets: [][]string{{"1", "S"}, {"4"}}, cmps: []cmpCase{{[]string{"0", "I"}, "9"}}, lens: [][]string{{}, {"0", "B"}},
		}, func() any { return &scratchObj1().StructSliceLiteral }),
		both(&target{name: "strings", ins: inspector.StringsInspector{}, deq: true, loops: []loopPath{sl(), sl("1")},
			gets: [][]string{{"0"}, {"11"}, {"12"}}, cmps: []cmpCase{{[]string{"2"}, "string 2"}}, lens: [][]string{{}, {"3"}},
		}, func() any {
			var ss []string
			for i := 0; i < 12; i++ {
				ss = append(ss, heap("string "+strconv.Itoa(i)))
			}
			return ss
		}),
		both(&target{name: "byteses", ins: inspector.StringsInspector{}, deq: true, loops: []loopPath{sl()},
			gets: [][]string{{"1"}, {"3"}}, cmps: []cmpCase{{[]string{"0"}, "bytes 0"}}, lens: [][]string{{}, {"1"}},
		}, func() any { return [][]byte{[]byte("bytes 0"), []byte("bytes 1"), {}} }),
		both(&target{name: "anymap", ins: inspector.StringAnyMapInspector{}, deq: true, loops: []loopPath{mp(), mp(), mp("nested"), mp("alpha"), mp("nokey")},
			gets: [][]string{{"beta"}, {"nested", "delta"}, {"nokey"}}, cmps: []cmpCase{{[]string{"beta"}, "two"}, {[]string{"alpha"}, "1"}}, lens: [][]string{{}, {"gamma"}, {"nested"}},
		}, func() any { return scratchAnyMap() }),
	}
}

// Every read operation of a target is aimed at every place any of them is aimed at, and at the ways such a path stops
// resolving: an absent member in last position, an absent member FOLLOWED BY MORE PATH (the form in which a lookup helper
// shared with Set would create the missing intermediate container in the shared value), a tail below a leaf.
func widen(ts []*target) []*target {
	for _, t := range ts {
		seen := map[string]bool{}
		var all [][]string
		add := func(p []string) {
			k := strings.Join(p, "\x00")
			if !seen[k] {
				seen[k] = true
				all = append(all, append([]string(nil), p...))
			}
		}
		var base [][]string
		base = append(base, t.gets...)
		base = append(base, t.lens...)
		for _, c := range t.cmps {
			base = append(base, c.path)
		}
		for _, l := range t.loops {
			base = append(base, l.path)
		}
		for _, p := range base {
			add(p)
		}
		for _, p := range base {
			add(append(append([]string(nil), p...), "zz-absent"))
			add(append(append([]string(nil), p...), "zz-absent", "tail"))
			if len(p) > 0 {
				add(append(append([]string(nil), p[:len(p)-1]...), "zz-absent", "tail"))
				add(append(append([]string(nil), p[:len(p)-1]...), "zz-absent", "tail", "deeper"))
			}
		}
		have := map[string]bool{}
		for _, l := range t.loops {
			have["l"+strings.Join(l.path, "\x00")] = true
		}
		for _, p := range t.gets {
			have["g"+strings.Join(p, "\x00")] = true
		}
		for _, p := range t.lens {
			have["n"+strings.Join(p, "\x00")] = true
		}
		for _, c := range t.cmps {
			have["c"+strings.Join(c.path, "\x00")] = true
		}
		for _, p := range all {
			k := strings.Join(p, "\x00")
			if !have["g"+k] {
				t.gets = append(t.gets, p)
			}
			if !have["n"+k] {
				t.lens = append(t.lens, p)
			}
			if !have["c"+k] {
				t.cmps = append(t.cmps, cmpCase{p, []string{"nil", "1", "x"}[len(p)%3]})
			}
			if !have["l"+k] {
				t.loops = append(t.loops, mp(p...))
			}
		}
	}
	return ts
}

var targets = widen(buildTargets())

// ---- the state of every shared value of the run before the goroutines start -----------------

type sharedEntry struct {
	name string
	v    any
	snap string
}

var registry []sharedEntry

func register(name string, v any) {
	registry = append(registry, sharedEntry{name: name, v: v, snap: emit.Dump(reflect.ValueOf(v))})
}

// every shared value of the five populations
func registerShared() {
	registerFlowShared()
	register("shared", shared)
	register("shared2", shared2)
	register("strs", strs)
	register("anymap", anymap)
	for i, o := range sharedOpts {
		register(fmt.Sprint("shared DEQOptions ", i), o)
	}
	for _, f := range families {
		for i, t := range f.templates {
			register(fmt.Sprint("template ", f.name, i), t)
		}
	}
	for _, t := range shippedTypes {
		for i, tpl := range t.templates {
			register(fmt.Sprint("template of every leaf ", t.name, i), tpl)
		}
	}
	for _, t := range targets {
		register("scratch "+t.name, t.v)
		register("scratch "+t.name+" (twin)", t.twin)
	}
}

// every key a map hands out when iterated is found when looked up (a key whose bytes were
// overwritten in place sits in the bucket of its old hash)
func keysFound(v reflect.Value, where string, depth int) string {
	if depth > 12 || !v.IsValid() {
		return ""
	}
	switch v.Kind() {
	case reflect.Ptr, reflect.Interface:
		if v.IsNil() {
			return ""
		}
		return keysFound(v.Elem(), where, depth+1)
	case reflect.Struct:
		for i := 0; i < v.NumField(); i++ {
			if s := keysFound(v.Field(i), where+"."+v.Type().Field(i).Name, depth+1); s != "" {
				return s
			}
		}
	case reflect.Slice, reflect.Array:
		if v.Type().Elem().Kind() == reflect.Uint8 {
			return ""
		}
		for i := 0; i < v.Len(); i++ {
			if s := keysFound(v.Index(i), where+"."+strconv.Itoa(i), depth+1); s != "" {
				return s
			}
		}
	case reflect.Map:
		it := v.MapRange()
		for it.Next() {
			k := it.Key()
			if !v.MapIndex(k).IsValid() {
				return fmt.Sprintf("%s: the map hands out the key %s when iterated and does not find it when looked up", where, emit.DumpDeref(k))
			}
			if s := keysFound(it.Value(), where+"."+emit.DumpDeref(k), depth+1); s != "" {
				return s
			}
		}
	}
	return ""
}

// the shared values that are no longer what they were before the goroutines started
func sharedChanged(when string) []string {
	var out []string
	for _, e := range registry {
		if now := emit.Dump(reflect.ValueOf(e.v)); now != e.snap {
			out = append(out, fmt.Sprintf("%s: the shared value %q was changed (by a read operation on it, or by a write to a private value copied from it): before the goroutines started %s, now %s", when, e.name, clip(e.snap, now), clip(now, e.snap)))
		} else if s := keysFound(reflect.ValueOf(e.v), e.name, 0); s != "" {
			out = append(out, when+": "+s)
		}
	}
	return out
}

// the part of a around the first place it differs from b
func clip(a, b string) string {
	i := 0
	for i < len(a) && i < len(b) && a[i] == b[i] {
		i++
	}
	lo, hi := i-40, i+60
	if lo < 0 {
		lo = 0
	}
	if hi > len(a) {
		hi = len(a)
	}
	return "..." + a[lo:hi] + "..."
}

// ---- the goroutine's scratch state -------------------------------------------------------------

// ONE iterator object per goroutine, reset before every Loop
type scratchIter struct {
	want    bool // RequireKey
	late    bool // keep what SetKey hands over and read it in Iterate (after SetVal) instead of at once
	ordered bool
	ctl     int // ordered collections: 1 = break at the third element, 2 = continue at every element
	key     any
	keyText string
	valText string
	rounds  []string
}

func keyOf(val any) string {
	switch p := val.(type) {
	case *[]byte:
		if p == nil {
			return "nil"
		}
		return string(*p)
	case *string:
		if p == nil {
			return "nil"
		}
		return strings.Clone(*p)
	case nil:
		return "none"
	}
	return emit.DumpDeref(reflect.ValueOf(val))
}

func (i *scratchIter) reset(want, late, ordered bool, ctl int) {
	*i = scratchIter{want: want, late: late, ordered: ordered, ctl: ctl, rounds: i.rounds[:0]}
}
func (i *scratchIter) RequireKey() bool { return i.want }
func (i *scratchIter) SetKey(val any, _ inspector.Inspector) {
	if i.late {
		i.key = val
		return
	}
	i.keyText = keyOf(val)
}
func (i *scratchIter) SetVal(val any, _ inspector.Inspector) {
	i.valText = emit.DumpDeref(reflect.ValueOf(val))
}
func (i *scratchIter) Iterate() inspector.LoopCtl {
	if i.late && i.key != nil {
		i.keyText = keyOf(i.key)
	}
	i.rounds = append(i.rounds, i.keyText+"="+i.valText)
	i.key, i.keyText, i.valText = nil, "", ""
	if i.ordered {
		switch {
		case i.ctl == 1 && len(i.rounds) == 3:
			return inspector.LoopCtlBrk
		case i.ctl == 2:
			return inspector.LoopCtlCnt
		}
	}
	return inspector.LoopCtlNone
}
func (i *scratchIter) result() string {
	rs := append([]string(nil), i.rounds...)
	if !i.ordered {
		sort.Strings(rs)
	}
	return strconv.Itoa(len(rs)) + "[" + strings.Join(rs, " ") + "]"
}

type scratchState struct {
	gid  int
	kbuf []byte      // ONE key buffer for all Loop calls
	it   scratchIter // ONE iterator
	res  any         // ONE result buffer for all GetTo calls
	b    bool        // ONE bool for all Compare calls
	n    int         // ONE int for all Length / Capacity calls
	// the goroutine's own value, written with ONE buffer that is never emptied: every text stored stays where it is
	private *testobj.TestObject
	bb      *inspector.ByteBuffer
	stored  map[string]string // leaf -> the text stored there last
	lastKey string            // a key met in a loop (the smallest one, so that it does not depend on a map's order)
	bad     []string
}

func newScratch(gid int) *scratchState {
	return &scratchState{gid: gid, private: scratchObj(), bb: inspector.NewByteBuffer(0), stored: map[string]string{}, lastKey: "k" + strconv.Itoa(gid)}
}

func (s *scratchState) step(r *rand.Rand) string {
	t := targets[r.Intn(len(targets))]
	if r.Intn(3) > 0 {
		// the two big objects more often than the single collections
		t = targets[r.Intn(2)]
	}
	switch c := r.Intn(16); {
	case c < 7:
		lp := t.loops[r.Intn(len(t.loops))]
		ctl := 0
		if r.Intn(4) == 0 {
			ctl = 1 + r.Intn(2)
		}
		s.it.reset(r.Intn(4) > 0, r.Intn(2) == 0, lp.ordered, ctl)
		err := t.ins.Loop(t.v, &s.it, &s.kbuf, lp.path...)
		if len(s.it.rounds) > 0 && s.it.want {
			m := s.it.rounds[0]
			for _, x := range s.it.rounds {
				if x < m {
					m = x
				}
			}
			s.lastKey = strings.Clone(m[:strings.IndexByte(m, '=')])
		}
		return fmt.Sprint("sloop ", t.name, lp.path, " key=", s.it.want, " late=", s.it.late, " ctl=", ctl, " ", s.it.result(), " ", err)
	case c < 9:
		p := t.gets[r.Intn(len(t.gets))]
		err := t.ins.GetTo(t.v, &s.res, p...)
		return fmt.Sprint("sgetto ", t.name, p, " ", emit.DumpDeref(reflect.ValueOf(s.res)), " ", err)
	case c < 11:
		cc := t.cmps[r.Intn(len(t.cmps))]
		op := inspector.Op(1 + r.Intn(6))
		err := t.ins.Compare(t.v, op, cc.right, &s.b, cc.path...)
		return fmt.Sprint("scmp ", t.name, cc.path, " ", op, " ", cc.right, " ", s.b, " ", err)
	case c < 12:
		p := t.lens[r.Intn(len(t.lens))]
		err := t.ins.Length(t.v, &s.n, p...)
		l := s.n
		err2 := t.ins.Capacity(t.v, &s.n, p...)
		// a map has no capacity and a value built by appends has the one the runtime chose: only whether it is there
		return fmt.Sprint("slen ", t.name, p, " ", l, " ", s.n >= l, " ", err, err2)
	case c < 13:
		if !t.deq {
			t = targets[0]
		}
		return fmt.Sprint("sdeq ", t.name, " ", t.ins.DeepEqual(t.v, t.twin), t.ins.DeepEqual(t.twin, t.v))
	case c < 14:
		// the key buffer is the goroutine's own: it uses it for a text of its own
		s.kbuf = append(strconv.AppendInt(append(s.kbuf[:0], "goroutine "...), int64(s.gid), 10), " was here"...)
		return "sown " + string(s.kbuf)
	default:
		// a write to the goroutine's own value with its one buffer: a key met in a loop becomes the Id, the Name, a comment
		leaves := [][]string{{"Id"}, {"Name"}, {"Finance", "History", "0", "Comment"}, {"HistoryTree", "x100", "Comment"}}
		p := leaves[r.Intn(len(leaves))]
		text := s.lastKey + "/" + strconv.Itoa(r.Intn(1000))
		var val any = strings.Clone(text)
		if r.Intn(2) == 0 {
			b := []byte(text)
			val = &b
		}
		err := testobj_ins.TestObjectInspector{}.SetWithBuffer(s.private, val, s.bb, p...)
		s.stored[strings.Join(p, ".")] = text
		return fmt.Sprint("sset ", p, " <- ", text, " ", err) + s.verify()
	}
}

func (s *scratchState) verify() string {
	o := s.private
	now := map[string]string{"Id": strings.Clone(o.Id), "Name": string(o.Name), "Finance.History.0.Comment": string(o.Finance.History[0].Comment), "HistoryTree.x100.Comment": string(o.HistoryTree["x100"].Comment)}
	out := ""
	for _, k := range []string{"Id", "Name", "Finance.History.0.Comment", "HistoryTree.x100.Comment"} {
		if w, ok := s.stored[k]; ok && now[k] != w {
			msg := fmt.Sprintf("scratch population: the goroutine's own value holds %q at %s, the goroutine stored %q", now[k], k, w)
			s.bad = append(s.bad, msg)
			out += " FOREIGN[" + msg + "]"
		}
	}
	return out
}

func (s *scratchState) final() string {
	return "sfinal " + emit.Dump(reflect.ValueOf(s.private).Elem()) + s.verify()
}
