// footprint - extracts from /repo's CURRENT source, for C20: every function of the
// inspector packages (SSA form), its static and interface (CHA) call edges, and
// the package-level variables it stores to; the run-time API roots; for every
// function the parameters its results may be derived from (is the parameter, a
// slice or a reinterpretation of it, or memory loaded through it: what a caller
// gets back is then not memory of its own); the parameters it may write through and
// what the values stored there may be derived from; the parameters into whose byte
// arrays it may write text IN PLACE (text is assigned by reference, so the bytes a
// value holds may be another value's); and prints them as a Coq file
// (coq/Gen/FootprintFacts.v).
//
//	footprint <repo-dir> > FootprintFacts.v
package main

import (
	"fmt"
	"go/token"
	"go/types"
	"os"
	"sort"
	"strings"

	"golang.org/x/tools/go/callgraph/cha"
	"golang.org/x/tools/go/packages"
	"golang.org/x/tools/go/ssa"
	"golang.org/x/tools/go/ssa/ssautil"
)

const mod = "github.com/koykov/inspector"

func own(p *types.Package) bool {
	if p == nil {
		return false
	}
	path := p.Path()
	return path == mod || path == mod+"/testobj" || path == mod+"/testobj_ins" ||
		strings.HasPrefix(path, "github.com/koykov/x2bytes") || strings.HasPrefix(path, "github.com/koykov/byteconv")
}

// global returns the package-level variable an address is derived from, if any.
func global(v ssa.Value) *ssa.Global {
	for {
		switch x := v.(type) {
		case *ssa.Global:
			return x
		case *ssa.FieldAddr:
			v = x.X
		case *ssa.IndexAddr:
			v = x.X
		default:
			return nil
		}
	}
}

// ---- which parameters may a result be derived from -------------------------------------
// A may-analysis over the SSA form, per function, with the summaries of the described
// functions substituted at static calls (fixpoint) and every other call taken to hand back
// anything it was given.  bit i = parameter i (receiver first).  "Derived from": the result is
// the parameter, a slice / field / element / reinterpretation (unsafe) of it, or a value
// loaded through it.  Fresh: make, new, literals, append's growth is NOT fresh for its
// first argument (the result may be the same array), copying conversions string <-> []byte are.
type pset uint64

type derive struct {
	sum     map[*ssa.Function][]pset
	st      map[*ssa.Function]*storeSum
	ti      map[*ssa.Function]pset              // text written in place: see textOf
	dyn     map[*ssa.CallCommon][]*ssa.Function // textInto only: the possible callees of calls that are not static
	changed bool
}

func carries(t types.Type) bool {
	switch u := t.Underlying().(type) {
	case *types.Basic:
		return u.Kind() == types.String || u.Kind() == types.UnsafePointer || u.Kind() == types.Uintptr || u.Kind() == types.UntypedNil || u.Kind() == types.UntypedString
	}
	return true
}

func all(f *ssa.Function) pset { return pset(1)<<uint(len(f.Params)) - 1 }

func addrRoot(v ssa.Value) ssa.Value {
	for {
		switch x := v.(type) {
		case *ssa.FieldAddr:
			v = x.X
		case *ssa.IndexAddr:
			v = x.X
		case *ssa.Convert:
			v = x.X
		case *ssa.ChangeType:
			v = x.X
		default:
			return v
		}
	}
}

func isText(t types.Type) bool {
	switch u := t.Underlying().(type) {
	case *types.Basic:
		return u.Info()&types.IsString != 0
	case *types.Slice:
		b, ok := u.Elem().Underlying().(*types.Basic)
		return ok && (b.Kind() == types.Byte || b.Kind() == types.Rune || b.Kind() == types.Uint8 || b.Kind() == types.Int32)
	}
	return false
}

func (d *derive) stored(f *ssa.Function, a *ssa.Alloc, seen map[ssa.Value]bool) pset {
	var r pset
	for _, b := range f.Blocks {
		for _, ins := range b.Instrs {
			if st, ok := ins.(*ssa.Store); ok && addrRoot(st.Addr) == ssa.Value(a) {
				r |= d.flows(f, st.Val, seen)
			}
		}
	}
	return r
}

func (d *derive) call(f *ssa.Function, c *ssa.CallCommon, nres, idx int, seen map[ssa.Value]bool) pset {
	if b, ok := c.Value.(*ssa.Builtin); ok {
		if b.Name() == "append" {
			return d.flows(f, c.Args[0], seen)
		}
		return 0
	}
	var r pset
	if callee := c.StaticCallee(); callee != nil {
		if sm, ok := d.sum[callee]; ok && len(sm) == nres && len(callee.Params) == len(c.Args) {
			for j, a := range c.Args {
				if sm[idx]&(pset(1)<<uint(j)) != 0 {
					r |= d.flows(f, a, seen)
				}
			}
			return r
		}
	}
	if cs := d.dyn[c]; len(cs) > 0 && c.StaticCallee() == nil && (!c.IsInvoke() || (c.Method.Pkg() != nil && own(c.Method.Pkg()))) {
		// textInto: every possible callee described - what they hand back, by their summaries
		args := c.Args
		if c.IsInvoke() {
			args = append([]ssa.Value{c.Value}, c.Args...)
		}
		described := true
		for _, callee := range cs {
			if sm, ok := d.sum[callee]; !ok || len(sm) != nres || len(callee.Params) != len(args) {
				described = false
			}
		}
		if described {
			for _, callee := range cs {
				for j, a := range args {
					if d.sum[callee][idx]&(pset(1)<<uint(j)) != 0 {
						r |= d.flows(f, a, seen)
					}
				}
			}
			return r
		}
	}
	// not described (standard library, interface method, function value): may hand back what it was given
	if c.IsInvoke() || c.StaticCallee() == nil {
		r |= d.flows(f, c.Value, seen)
	}
	for _, a := range c.Args {
		r |= d.flows(f, a, seen)
	}
	return r
}

func (d *derive) flows(f *ssa.Function, v ssa.Value, seen map[ssa.Value]bool) pset {
	if v == nil || seen[v] || !carries(v.Type()) {
		return 0
	}
	// one visited set per query: the answer is the union over everything reachable
	seen[v] = true
	switch x := v.(type) {
	case *ssa.Parameter:
		for i, p := range f.Params {
			if p == x {
				return pset(1) << uint(i)
			}
		}
		return all(f)
	case *ssa.Const, *ssa.MakeSlice, *ssa.MakeMap, *ssa.MakeChan, *ssa.Global, *ssa.Function, *ssa.Builtin:
		return 0
	case *ssa.Alloc:
		return d.stored(f, x, seen)
	case *ssa.Slice:
		return d.flows(f, x.X, seen)
	case *ssa.Phi:
		var r pset
		for _, e := range x.Edges {
			r |= d.flows(f, e, seen)
		}
		return r
	case *ssa.Convert:
		if isText(x.Type()) && isText(x.X.Type()) && !types.Identical(x.Type().Underlying(), x.X.Type().Underlying()) {
			return 0 // string <-> []byte / []rune: a copy
		}
		return d.flows(f, x.X, seen)
	case *ssa.ChangeType:
		return d.flows(f, x.X, seen)
	case *ssa.ChangeInterface:
		return d.flows(f, x.X, seen)
	case *ssa.MakeInterface:
		return d.flows(f, x.X, seen)
	case *ssa.SliceToArrayPointer:
		return d.flows(f, x.X, seen)
	case *ssa.TypeAssert:
		return d.flows(f, x.X, seen)
	case *ssa.FieldAddr:
		return d.flows(f, x.X, seen)
	case *ssa.IndexAddr:
		return d.flows(f, x.X, seen)
	case *ssa.Field:
		return d.flows(f, x.X, seen)
	case *ssa.Index:
		return d.flows(f, x.X, seen)
	case *ssa.Lookup:
		return d.flows(f, x.X, seen)
	case *ssa.MakeClosure:
		var r pset
		for _, b := range x.Bindings {
			r |= d.flows(f, b, seen)
		}
		return r
	case *ssa.BinOp:
		if b, ok := x.Type().Underlying().(*types.Basic); ok && b.Kind() == types.Uintptr {
			return d.flows(f, x.X, seen) | d.flows(f, x.Y, seen)
		}
		return 0 // string concatenation, comparisons: fresh
	case *ssa.UnOp:
		if x.Op != token.MUL {
			if x.Op == token.ARROW {
				return all(f)
			}
			return 0
		}
		root := addrRoot(x.X)
		switch r := root.(type) {
		case *ssa.Alloc:
			return d.stored(f, r, seen)
		case *ssa.Global:
			return 0
		}
		return d.flows(f, root, seen)
	case *ssa.Call:
		return d.call(f, x.Common(), 1, 0, seen)
	case *ssa.Extract:
		if c, ok := x.Tuple.(*ssa.Call); ok {
			n := c.Type().(*types.Tuple).Len()
			return d.call(f, c.Common(), n, x.Index, seen)
		}
		switch t := x.Tuple.(type) {
		case *ssa.TypeAssert:
			return d.flows(f, t.X, seen)
		case *ssa.Lookup:
			return d.flows(f, t.X, seen)
		case *ssa.UnOp:
			return d.flows(f, t, seen)
		case *ssa.Next:
			// key / element of a range over a map or a string: memory of what is ranged over
			if rg, ok := t.Iter.(*ssa.Range); ok {
				return d.flows(f, rg.X, seen)
			}
		}
		return all(f)
	}
	return all(f)
}

// ---- through which parameters a function stores, and what it stores there ---------------
// A may-analysis like the one above: the function may WRITE memory reached through parameter t
// (a store through a pointer derived from t, a map update, an append or copy into a slice derived
// from t, a delete / clear, a static call of a described function that does - summaries
// substituted, fixpoint -, any other call that is handed such a pointer, slice or map, unless it
// is known not to write its arguments), and the VALUES it stores there may be derived from the
// parameters in `from` (the same relation as for results: the stored value is the parameter, a
// slice / field / element / reinterpretation of it, or loaded through it; scalars and copies are
// derived from nothing).  Memory of the function's own variables and of fresh allocations is
// nobody's parameter.  A call of a method of an interface the module declares (Inspector,
// AccumulativeBuffer, Iterator, ...) stands for the module's own implementations (class hierarchy
// analysis, summaries substituted); an implementation the CALLER supplies - its iterator, its
// buffer - is the caller's code run on the caller's behalf.
type storeSum struct {
	hit  pset
	from [64]pset
}

func (s *storeSum) add(t, from pset) bool {
	ch := false
	for i := 0; i < 64; i++ {
		if t&(pset(1)<<uint(i)) == 0 {
			continue
		}
		if s.hit&(pset(1)<<uint(i)) == 0 || s.from[i]|from != s.from[i] {
			ch = true
		}
		s.hit |= pset(1) << uint(i)
		s.from[i] |= from
	}
	return ch
}

// the parameters whose memory an address may lie in
func (d *derive) target(f *ssa.Function, addr ssa.Value) pset {
	v := addr
	for {
		switch x := v.(type) {
		case *ssa.FieldAddr:
			v = x.X
			continue
		case *ssa.IndexAddr:
			v = x.X
			continue
		}
		break
	}
	switch v.(type) {
	case *ssa.Alloc, *ssa.Global:
		return 0
	}
	return d.flows(f, v, map[ssa.Value]bool{})
}

func (d *derive) val(f *ssa.Function, v ssa.Value) pset { return d.flows(f, v, map[ssa.Value]bool{}) }

// may the callee write memory it is handed in a value of this type
func writable(t types.Type) bool {
	switch u := t.Underlying().(type) {
	case *types.Basic:
		return u.Kind() == types.UnsafePointer
	case *types.Pointer, *types.Slice, *types.Map, *types.Interface, *types.Chan, *types.Signature:
		return true
	case *types.Struct:
		for i := 0; i < u.NumFields(); i++ {
			if writable(u.Field(i).Type()) {
				return true
			}
		}
	case *types.Array:
		return writable(u.Elem())
	}
	return false
}

// functions outside the described packages that do not write memory they are handed (readers, parsers,
// formatters returning new text), and those that write through their first argument only
func outside(name string) (pure, first bool) {
	for _, p := range []string{"strconv.Parse", "strconv.Format", "strconv.Itoa", "strconv.Atoi", "strconv.Quote", "bytes.Equal", "bytes.Compare", "bytes.Index", "bytes.Has",
		"bytes.Contains", "strings.", "math.", "unicode/utf8.", "unicode.", "errors.New", "fmt.Errorf", "fmt.Sprint", "reflect.TypeOf", "reflect.ValueOf", "reflect.DeepEqual",
		"(reflect.Value).", "(*reflect.rtype).", "(reflect.Type).", "(error).Error", "unsafe."} {
		if strings.HasPrefix(name, p) {
			return true, false
		}
	}
	if strings.HasPrefix(name, "strconv.Append") || strings.HasPrefix(name, "unicode/utf8.Append") {
		return false, true
	}
	return false, false
}

var unknownWriters = map[string]bool{}

func (d *derive) storesOf(f *ssa.Function, sites map[ssa.CallInstruction][]*ssa.Function) {
	sum := d.st[f]
	rec := func(t, from pset) {
		if t != 0 && sum.add(t, from) {
			d.changed = true
		}
	}
	for _, b := range f.Blocks {
		for _, ins := range b.Instrs {
			switch x := ins.(type) {
			case *ssa.Store:
				rec(d.target(f, x.Addr), d.val(f, x.Val))
			case *ssa.MapUpdate:
				rec(d.val(f, x.Map), d.val(f, x.Key)|d.val(f, x.Value))
			case ssa.CallInstruction:
				c := x.Common()
				if bi, ok := c.Value.(*ssa.Builtin); ok {
					switch bi.Name() {
					case "append":
						var from pset
						if len(c.Args) > 1 {
							if sl, ok := c.Args[1].Type().Underlying().(*types.Slice); ok && carries(sl.Elem()) {
								from = d.val(f, c.Args[1])
							}
						}
						rec(d.val(f, c.Args[0]), from)
					case "copy":
						var from pset
						if sl, ok := c.Args[0].Type().Underlying().(*types.Slice); ok && carries(sl.Elem()) {
							from = d.val(f, c.Args[1])
						}
						rec(d.val(f, c.Args[0]), from)
					case "delete", "clear":
						rec(d.val(f, c.Args[0]), 0)
					}
					continue
				}
				if callee := c.StaticCallee(); callee != nil {
					if cs, ok := d.st[callee]; ok && len(callee.Params) == len(c.Args) {
						for j := range c.Args {
							if cs.hit&(pset(1)<<uint(j)) == 0 {
								continue
							}
							var from pset
							for k := range c.Args {
								if cs.from[j]&(pset(1)<<uint(k)) != 0 {
									from |= d.val(f, c.Args[k])
								}
							}
							rec(d.val(f, c.Args[j]), from)
						}
						continue
					}
					pure, first := outside(callee.String())
					if pure {
						continue
					}
					if first && len(c.Args) > 0 {
						rec(d.val(f, c.Args[0]), 0)
						continue
					}
					unknownWriters[callee.String()] = true
				}
				if c.IsInvoke() {
					if pure, _ := outside(c.Method.FullName()); pure {
						continue
					}
					if c.Method.Pkg() != nil && own(c.Method.Pkg()) {
						// a method of an interface the module declares: the module's own implementations (class
						// hierarchy analysis) with their summaries; one supplied by the caller is the caller's code
						args := append([]ssa.Value{c.Value}, c.Args...)
						for _, callee := range sites[x] {
							cs, ok := d.st[callee]
							if !ok || len(callee.Params) != len(args) {
								continue
							}
							for j := range args {
								if cs.hit&(pset(1)<<uint(j)) == 0 {
									continue
								}
								var from pset
								for k := range args {
									if cs.from[j]&(pset(1)<<uint(k)) != 0 {
										from |= d.val(f, args[k])
									}
								}
								rec(d.val(f, args[j]), from)
							}
						}
						continue
					}
					unknownWriters[c.Method.FullName()] = true
				}
				// not described: may write whatever it is handed, and store there whatever it is handed
				var t, from pset
				if c.IsInvoke() || c.StaticCallee() == nil {
					from |= d.val(f, c.Value)
					if writable(c.Value.Type()) {
						t |= d.val(f, c.Value)
					}
				}
				for _, a := range c.Args {
					v := d.val(f, a)
					from |= v
					if writable(a.Type()) {
						t |= v
					}
				}
				rec(t, from)
			}
		}
	}
}

// ---- into which parameters' byte arrays a function writes text IN PLACE --------------------
// Text is a value: the library replaces a []byte - by a reference to other bytes, or by bytes it
// has put into the caller's buffer - and never rewrites the bytes it finds in a value.  (Other
// collections ARE reused in place by CopyTo, as documented; text is not: Set assigns it by
// reference, so the bytes a value holds may be another value's.)  A may-analysis with the same
// "derived from" relation: the function may write bytes into an existing byte array derived from
// parameter p - an append to a []byte derived from p (which writes into its spare capacity), a
// copy into it, a store to an element of it, a strconv.Append* / utf8.Append* onto it, a static
// call of a described function that does (summaries substituted, fixpoint), a call of a method of
// one of the module's interfaces or of a function value whose possible callees (class hierarchy
// analysis) are all described, any other call that is handed memory in which bytes can be reached.
func isBytes(t types.Type) bool {
	switch u := t.Underlying().(type) {
	case *types.Slice:
		b, ok := u.Elem().Underlying().(*types.Basic)
		return ok && b.Kind() == types.Uint8
	case *types.Pointer:
		if a, ok := u.Elem().Underlying().(*types.Array); ok {
			b, ok := a.Elem().Underlying().(*types.Basic)
			return ok && b.Kind() == types.Uint8
		}
	}
	return false
}

// can a callee reach a byte array through a value of this type
func reachesBytes(t types.Type, depth int) bool {
	if depth > 6 {
		return true
	}
	switch u := t.Underlying().(type) {
	case *types.Basic:
		return u.Kind() == types.UnsafePointer
	case *types.Slice:
		if isBytes(t) {
			return true
		}
		return reachesBytes(u.Elem(), depth+1)
	case *types.Pointer:
		if b, ok := u.Elem().Underlying().(*types.Basic); ok && b.Kind() == types.Uint8 {
			return true
		}
		return isBytes(t) || reachesBytes(u.Elem(), depth+1)
	case *types.Array:
		return reachesBytes(u.Elem(), depth+1)
	case *types.Map:
		return reachesBytes(u.Key(), depth+1) || reachesBytes(u.Elem(), depth+1)
	case *types.Struct:
		for i := 0; i < u.NumFields(); i++ {
			if reachesBytes(u.Field(i).Type(), depth+1) {
				return true
			}
		}
		return false
	case *types.Interface, *types.Signature, *types.Chan:
		return true
	}
	return false
}

func (d *derive) textOf(f *ssa.Function, sites map[ssa.CallInstruction][]*ssa.Function) {
	rec := func(t pset) {
		if d.ti[f]|t != d.ti[f] {
			d.ti[f] |= t
			d.changed = true
		}
	}
	subst := func(callee *ssa.Function, args []ssa.Value) bool {
		cs, ok := d.ti[callee]
		if !ok || len(callee.Params) != len(args) {
			return false
		}
		for j := range args {
			if cs&(pset(1)<<uint(j)) != 0 {
				rec(d.val(f, args[j]))
			}
		}
		return true
	}
	for _, b := range f.Blocks {
		for _, ins := range b.Instrs {
			switch x := ins.(type) {
			case *ssa.Store:
				// an element of a byte slice / byte array behind a pointer
				for a := x.Addr; ; {
					if ia, ok := a.(*ssa.IndexAddr); ok {
						if isBytes(ia.X.Type()) {
							rec(d.target(f, ia.X))
							break
						}
						a = ia.X
						continue
					}
					if fa, ok := a.(*ssa.FieldAddr); ok {
						a = fa.X
						continue
					}
					break
				}
			case ssa.CallInstruction:
				c := x.Common()
				if bi, ok := c.Value.(*ssa.Builtin); ok {
					switch bi.Name() {
					case "append", "copy":
						if isBytes(c.Args[0].Type()) {
							rec(d.val(f, c.Args[0]))
						}
					}
					continue
				}
				if callee := c.StaticCallee(); callee != nil {
					if subst(callee, c.Args) {
						continue
					}
					pure, first := outside(callee.String())
					if pure {
						continue
					}
					if first && len(c.Args) > 0 {
						if isBytes(c.Args[0].Type()) {
							rec(d.val(f, c.Args[0]))
						}
						continue
					}
				} else if cs := sites[x]; len(cs) > 0 {
					// a method of one of the module's interfaces, or a function value: every possible callee described
					args := c.Args
					if c.IsInvoke() {
						if pure, _ := outside(c.Method.FullName()); pure {
							continue
						}
						args = append([]ssa.Value{c.Value}, c.Args...)
					}
					all := !c.IsInvoke() || (c.Method.Pkg() != nil && own(c.Method.Pkg()))
					for _, callee := range cs {
						if _, ok := d.ti[callee]; !ok || len(callee.Params) != len(args) {
							all = false
						}
					}
					if all {
						for _, callee := range cs {
							subst(callee, args)
						}
						continue
					}
				} else if c.IsInvoke() {
					if pure, _ := outside(c.Method.FullName()); pure {
						continue
					}
					if c.Method.Pkg() != nil && own(c.Method.Pkg()) {
						continue // an interface of the module with no implementation in it: the caller's own code
					}
				}
				// not described: may write into whatever bytes it can reach
				if c.IsInvoke() || c.StaticCallee() == nil {
					if reachesBytes(c.Value.Type(), 0) {
						rec(d.val(f, c.Value))
					}
				}
				for _, a := range c.Args {
					if reachesBytes(a.Type(), 0) {
						rec(d.val(f, a))
					}
				}
			}
		}
	}
}

type storeRow struct {
	target int
	from   []int
}

func storesThrough(fns []*ssa.Function, sites map[ssa.CallInstruction][]*ssa.Function) [][]storeRow {
	d := &derive{sum: map[*ssa.Function][]pset{}, st: map[*ssa.Function]*storeSum{}}
	for _, f := range fns {
		d.sum[f] = make([]pset, f.Signature.Results().Len())
		d.st[f] = &storeSum{}
	}
	for round := 0; round < 64; round++ {
		d.changed = false
		for _, f := range fns {
			d.function(f)
			d.storesOf(f, sites)
		}
		if !d.changed {
			break
		}
	}
	out := make([][]storeRow, len(fns))
	for i, f := range fns {
		s := d.st[f]
		for j := range f.Params {
			if s.hit&(pset(1)<<uint(j)) == 0 {
				continue
			}
			row := storeRow{target: j}
			for k := range f.Params {
				if s.from[j]&(pset(1)<<uint(k)) != 0 {
					row.from = append(row.from, k)
				}
			}
			out[i] = append(out[i], row)
		}
	}
	return out
}

// the text-in-place facts: a fixpoint of their own, in which the results of calls of function values and of
// methods of the module's interfaces are taken from the summaries of their possible callees as well
func textInto(fns []*ssa.Function, allSites map[ssa.CallInstruction][]*ssa.Function) [][]int {
	d := &derive{sum: map[*ssa.Function][]pset{}, ti: map[*ssa.Function]pset{}, dyn: map[*ssa.CallCommon][]*ssa.Function{}}
	for x, cs := range allSites {
		d.dyn[x.Common()] = cs
	}
	for _, f := range fns {
		d.sum[f] = make([]pset, f.Signature.Results().Len())
		d.ti[f] = 0
	}
	for round := 0; round < 64; round++ {
		d.changed = false
		for _, f := range fns {
			d.function(f)
			d.textOf(f, allSites)
		}
		if !d.changed {
			break
		}
	}
	text := make([][]int, len(fns))
	for i, f := range fns {
		for j := range f.Params {
			if d.ti[f]&(pset(1)<<uint(j)) != 0 {
				text[i] = append(text[i], j)
			}
		}
	}
	return text
}

func (d *derive) function(f *ssa.Function) {
	n := f.Signature.Results().Len()
	cur := d.sum[f]
	if len(cur) != n {
		cur = make([]pset, n)
		d.sum[f] = cur
	}
	for _, b := range f.Blocks {
		for _, ins := range b.Instrs {
			ret, ok := ins.(*ssa.Return)
			if !ok {
				continue
			}
			for i, r := range ret.Results {
				if i >= n {
					break
				}
				s := d.flows(f, r, map[ssa.Value]bool{})
				if s|cur[i] != cur[i] {
					cur[i] |= s
					d.changed = true
				}
			}
		}
	}
}

func resultsFrom(fns []*ssa.Function) [][]int {
	d := &derive{sum: map[*ssa.Function][]pset{}}
	for _, f := range fns {
		d.sum[f] = make([]pset, f.Signature.Results().Len())
	}
	for round := 0; round < 64; round++ {
		d.changed = false
		for _, f := range fns {
			d.function(f)
		}
		if !d.changed {
			break
		}
	}
	out := make([][]int, len(fns))
	for i, f := range fns {
		var u pset
		for _, s := range d.sum[f] {
			u |= s
		}
		for j := range f.Params {
			if u&(pset(1)<<uint(j)) != 0 {
				out[i] = append(out[i], j)
			}
		}
	}
	return out
}

func main() {
	repo := os.Args[1]
	cfg := &packages.Config{Mode: packages.LoadAllSyntax, Dir: repo, Env: append(os.Environ(), "GOFLAGS=-mod=mod", "GOPROXY=off")}
	pkgs, err := packages.Load(cfg, mod, mod+"/testobj_ins")
	if err != nil || packages.PrintErrors(pkgs) > 0 {
		fmt.Fprintln(os.Stderr, "footprint: load failed", err)
		os.Exit(1)
	}
	prog, _ := ssautil.AllPackages(pkgs, ssa.InstantiateGenerics)
	prog.Build()
	cg := cha.CallGraph(prog)

	// the functions we describe: those of the inspector module and its two small helper libraries
	var fns []*ssa.Function
	for f := range ssautil.AllFunctions(prog) {
		if f.Pkg != nil && own(f.Pkg.Pkg) && f.Synthetic == "" || (f.Pkg != nil && own(f.Pkg.Pkg) && strings.HasPrefix(f.Synthetic, "wrapper")) ||
			(f.Pkg != nil && own(f.Pkg.Pkg) && strings.HasPrefix(f.Synthetic, "bound")) || (f.Pkg != nil && own(f.Pkg.Pkg) && f.Synthetic == "package initializer") {
			fns = append(fns, f)
		} else if f.Parent() != nil && f.Parent().Pkg != nil && own(f.Parent().Pkg.Pkg) {
			fns = append(fns, f) // closures
		}
	}
	sort.Slice(fns, func(i, j int) bool { return fns[i].String() < fns[j].String() })
	id := map[*ssa.Function]int{}
	for i, f := range fns {
		id[f] = i
	}
	// stores to package-level variables (direct stores and map updates), per function
	writes := make([][]string, len(fns))
	for i, f := range fns {
		seen := map[string]bool{}
		for _, b := range f.Blocks {
			for _, ins := range b.Instrs {
				var g *ssa.Global
				switch x := ins.(type) {
				case *ssa.Store:
					g = global(x.Addr)
				case *ssa.MapUpdate:
					if u, ok := x.Map.(*ssa.UnOp); ok {
						g = global(u.X)
					}
				}
				if g != nil && own(g.Pkg.Pkg) && !seen[g.String()] {
					seen[g.String()] = true
					writes[i] = append(writes[i], g.String())
				}
			}
		}
		sort.Strings(writes[i])
	}
	// call edges between described functions (CHA: every implementation of an interface method)
	edges := make([][]int, len(fns))
	for i, f := range fns {
		n := cg.Nodes[f]
		if n == nil {
			continue
		}
		seen := map[int]bool{}
		for _, e := range n.Out {
			if j, ok := id[e.Callee.Func]; ok && !seen[j] {
				seen[j] = true
				edges[i] = append(edges[i], j)
			}
		}
		// closures created here run on behalf of their creator
		for _, a := range f.AnonFuncs {
			if j, ok := id[a]; ok && !seen[j] {
				seen[j] = true
				edges[i] = append(edges[i], j)
			}
		}
		sort.Ints(edges[i])
	}
	// run-time API roots
	var insp *types.Interface
	for _, p := range pkgs {
		if p.PkgPath == mod {
			insp = p.Types.Scope().Lookup("Inspector").Type().Underlying().(*types.Interface)
		}
	}
	rootNames := map[string]bool{}
	for _, n := range []string{"Assign", "AssignBuf", "AssignToBytes", "AssignToStr", "AssignToBool", "AssignToInt", "AssignToUint", "AssignToFloat",
		"Bufferize", "BufferizeString", "DEQMustCheck", "EqualFloat64", "EqualFloat32", "GetInspector", "NewByteBuffer"} {
		rootNames[mod+"."+n] = true
	}
	var roots []int
	for i, f := range fns {
		if rootNames[f.String()] {
			roots = append(roots, i)
			continue
		}
		if recv := f.Signature.Recv(); recv != nil && f.Pkg != nil && f.Synthetic == "" {
			t := recv.Type()
			named := t
			if p, ok := t.(*types.Pointer); ok {
				named = p.Elem()
			}
			if nt, ok := named.(*types.Named); ok {
				if types.Implements(t, insp) || types.Implements(types.NewPointer(nt), insp) || nt.Obj().Name() == "ByteBuffer" {
					if f.Object() != nil && f.Object().Exported() {
						roots = append(roots, i)
					}
				}
			}
		}
	}
	esc := func(s string) string { return strings.ReplaceAll(s, `"`, `""`) }
	fmt.Println("(* GENERATED by harness/cmd/footprint from /repo's current source - do not edit. *)")
	fmt.Println("From Coq Require Import List String NArith.")
	fmt.Println("Import ListNotations.")
	fmt.Println("Local Open Scope string_scope.")
	fmt.Println("Local Open Scope N_scope.")
	fmt.Println("\n(* (id, name, callees, package-level variables stored to) *)")
	fmt.Println("Definition fp_fns : list (N * string * list N * list string) := [")
	for i, f := range fns {
		var es, ws []string
		for _, j := range edges[i] {
			es = append(es, fmt.Sprint(j))
		}
		for _, w := range writes[i] {
			ws = append(ws, `"`+esc(w)+`"`)
		}
		sep := ";"
		if i == len(fns)-1 {
			sep = ""
		}
		fmt.Printf("  (%d, \"%s\", [%s], [%s])%s\n", i, esc(f.String()), strings.Join(es, "; "), strings.Join(ws, "; "), sep)
	}
	fmt.Println("].")
	var rs []string
	for _, r := range roots {
		rs = append(rs, fmt.Sprint(r))
	}
	fmt.Printf("\nDefinition fp_roots : list N := [%s].\n", strings.Join(rs, "; "))

	// (id, parameters - receiver first, from 0 - that a result of the function may be derived from)
	fmt.Println("\n(* (id, parameters a result may be derived from: the parameter itself, a slice or reinterpretation of it,")
	fmt.Println("   memory loaded through it; receiver first, counted from 0); functions with none are left out *)")
	fmt.Println("Definition fp_result_from : list (N * list N) := [")
	rf := resultsFrom(fns)
	var rows []string
	for i := range fns {
		if len(rf[i]) == 0 {
			continue
		}
		var ps []string
		for _, j := range rf[i] {
			ps = append(ps, fmt.Sprint(j))
		}
		rows = append(rows, fmt.Sprintf("  (%d, [%s])", i, strings.Join(ps, "; ")))
	}
	fmt.Println(strings.Join(rows, ";\n"))
	fmt.Println("].")

	// (id, [(parameter t the function may write memory through, parameters the values stored there may be derived from)])
	sites := map[ssa.CallInstruction][]*ssa.Function{}
	// ... and for the text-in-place facts: the calls of function values as well, and EVERY possible callee
	// (one that is not described makes the call an undescribed one)
	allSites := map[ssa.CallInstruction][]*ssa.Function{}
	for _, f := range fns {
		if n := cg.Nodes[f]; n != nil {
			for _, e := range n.Out {
				if _, ok := id[e.Callee.Func]; ok && e.Site != nil && e.Site.Common().IsInvoke() {
					sites[e.Site] = append(sites[e.Site], e.Callee.Func)
				}
				if e.Site != nil && e.Site.Common().StaticCallee() == nil {
					allSites[e.Site] = append(allSites[e.Site], e.Callee.Func)
				}
			}
		}
	}
	fmt.Println("\n(* (id, [(t, from)]): the function may write memory reached through parameter t (store through a pointer,")
	fmt.Println("   map update, append / copy into a slice, a call that does), and the values stored there may be derived from")
	fmt.Println("   the parameters in from (scalars, copies and fresh memory: from nothing); receiver first, counted from 0;")
	fmt.Println("   methods of the module's interfaces: the module's own implementations, one supplied by the caller (an iterator, a buffer)")
	fmt.Println("   is the caller's own code; functions writing through no parameter are left out *)")
	fmt.Println("Definition fp_store_from : list (N * list (N * list N)) := [")
	st := storesThrough(fns, sites)
	text := textInto(fns, allSites)
	rows = rows[:0]
	for i := range fns {
		if len(st[i]) == 0 {
			continue
		}
		var es []string
		for _, r := range st[i] {
			var ps []string
			for _, j := range r.from {
				ps = append(ps, fmt.Sprint(j))
			}
			es = append(es, fmt.Sprintf("(%d, [%s])", r.target, strings.Join(ps, "; ")))
		}
		rows = append(rows, fmt.Sprintf("  (%d, [%s])", i, strings.Join(es, "; ")))
	}
	fmt.Println(strings.Join(rows, ";\n"))
	fmt.Println("].")

	// (id, parameters into whose byte arrays the function may write text in place)
	fmt.Println("\n(* (id, parameters p such that the function may write bytes IN PLACE into a byte array derived from p: an append")
	fmt.Println("   to a []byte derived from p (into its spare capacity), a copy into it, a store to an element of it, a call that")
	fmt.Println("   does; receiver first, counted from 0; functions with none are left out *)")
	fmt.Println("Definition fp_text_into : list (N * list N) := [")
	rows = rows[:0]
	for i := range fns {
		if len(text[i]) == 0 {
			continue
		}
		var ps []string
		for _, j := range text[i] {
			ps = append(ps, fmt.Sprint(j))
		}
		rows = append(rows, fmt.Sprintf("  (%d, [%s])", i, strings.Join(ps, "; ")))
	}
	fmt.Println(strings.Join(rows, ";\n"))
	fmt.Println("].")
	if os.Getenv("FOOTPRINT_DEBUG") != "" {
		var us []string
		for u := range unknownWriters {
			us = append(us, u)
		}
		sort.Strings(us)
		fmt.Fprintln(os.Stderr, "undescribed callees taken to write what they are handed:", strings.Join(us, ", "))
	}
}
