package emit

// op_seq.go: HISTORIES of read operations (C12: "a read operation never modifies the value it reads" - so the next
// read, whatever it is and whatever caller-owned buffer it is handed, finds the value as it was).
//
//	seq;<step>|<step>|...           one history in the form of the case.  ONE object is built from the value text and
//	                                handed to every step in that form; ONE key buffer (*[]byte) owned by the caller is
//	                                handed to every Loop of the history, whichever object it runs over.
//	   step  loop;<canon>;<wants>;<ctls>;<path>                 Loop over the object
//	         oloop;<canon>;<wants>;<ctls>;<path>                Loop over a SECOND object of the same type, built
//	                                                            independently from the same value text, same form
//	         xloop;<Type2>;<value2>;<canon>;<wants>;<ctls>;<path>   Loop over a partner object of another registered
//	                                                            type (one per distinct <Type2>;<value2>, handed over as *T2)
//	         get;<path>   getto;<path>                          Get / GetTo on the object (GetTo: a result buffer of its own)
//	         bgetto;<path>                                      GetTo on the object with the RESULT BUFFER OF THE HISTORY:
//	                                                            ONE *any owned by the caller (a sentinel in it when the
//	                                                            history starts) is handed to every bgetto / obgetto /
//	                                                            xbgetto step, so that it holds the answer of the step
//	                                                            before - after a struct field a pointer INTO an object
//	         obgetto;<path>                                     the same on the SECOND object (as for oloop)
//	         xbgetto;<Type2>;<value2>;<path>                    the same on a partner object (as for xloop)
//	   observation   <step observation>#<step observation>#...;same=<one bit per step>
//	         step observations are those of the ops loop / get / getto (bgetto...: what the shared buffer denotes after
//	         the call, "same" = still the sentinel; live = it is the element the step's path reaches in the step's
//	         object); same: after the step EVERY object of the history (the object, the second object, the partners)
//	         dumps as it did before the first step, and every key a map yields is found again by a lookup of that key
//	         (a key changed in place sits in a stale bucket).
//	seqf;<step>|<step>|...          grouped: the history by value, by pointer and by pointer-to-pointer (fresh objects and
//	                                a fresh buffer per form), and every step ALONE on fresh objects with a fresh buffer
//	                                (by pointer):
//	                                    alone=<v><p><pp>.<v><p><pp>. ... ;same=<v><p><pp>.<v><p><pp>. ...
//	         alone, per step and form: the step's observation inside the history is its observation alone (get / getto
//	         without the liveness bit; a bgetto / obgetto / xbgetto step that stores nothing alone - "v=same" - must
//	         leave the shared buffer holding the very pointer it held before the step); same, per step and form: as above.
//
// Map keys and strings of the objects are run-time (heap) strings (value.go builds them from decoded bytes), so an
// erroneous store into one is an observable change, not a fault in read-only memory.

import (
	"reflect"
	"strings"

	"github.com/koykov/inspector"
)

// mapsSound: every key a map of the value yields is found by a lookup (keys that are not equal to themselves - NaN -
// never are and are left out)
func mapsSound(v reflect.Value) bool {
	switch v.Kind() {
	case reflect.Ptr, reflect.Interface:
		if v.IsNil() {
			return true
		}
		return mapsSound(v.Elem())
	case reflect.Struct:
		for i := 0; i < v.NumField(); i++ {
			if !mapsSound(v.Field(i)) {
				return false
			}
		}
	case reflect.Slice:
		if v.Type().Elem().Kind() == reflect.Uint8 {
			return true
		}
		for i := 0; i < v.Len(); i++ {
			if !mapsSound(v.Index(i)) {
				return false
			}
		}
	case reflect.Map:
		it := v.MapRange()
		for it.Next() {
			k := it.Key()
			kk := k
			for kk.Kind() == reflect.Ptr && !kk.IsNil() {
				kk = kk.Elem()
			}
			selfEqual := true
			if kk.Kind() == reflect.Float32 || kk.Kind() == reflect.Float64 {
				selfEqual = kk.Float() == kk.Float()
			}
			if selfEqual && !v.MapIndex(k).IsValid() {
				return false
			}
			if !mapsSound(it.Value()) {
				return false
			}
		}
	}
	return true
}

type seqObj struct {
	ins  inspector.Inspector
	arg  any
	root reflect.Value // the addressable object behind arg
	was  string
}

func newSeqObj(ins inspector.Inspector, t reflect.Type, form, value string) *seqObj {
	v := Build(t, value)
	pv := reflect.New(t)
	pv.Elem().Set(v)
	o := &seqObj{ins: ins, root: pv.Elem()}
	switch form {
	case "v":
		o.arg = pv.Elem().Interface()
	case "p":
		o.arg = pv.Interface()
	case "pp":
		ppv := reflect.New(pv.Type())
		ppv.Elem().Set(pv)
		o.arg = ppv.Interface()
	default:
		panic("seq: bad form " + form)
	}
	o.was = DumpB(o.root)
	return o
}

func (o *seqObj) intact() bool { return DumpB(o.root) == o.was && mapsSound(o.root) }

// one history: its objects and the caller's key buffer
type seqHist struct {
	ins    inspector.Inspector
	t      reflect.Type
	form   string
	value  string
	main   *seqObj
	second *seqObj
	others map[string]*seqObj
	order  []*seqObj
	buf    []byte
	sent   *getSentinel
	res    any  // the caller's result buffer, handed to every bgetto / obgetto / xbgetto step
	kept   bool // the last such step left in res the very pointer it found there
}

func newSeqHist(ins inspector.Inspector, t reflect.Type, form, value string) *seqHist {
	h := &seqHist{ins: ins, t: t, form: form, value: value, others: map[string]*seqObj{}, buf: make([]byte, 0, 8)}
	h.main = newSeqObj(ins, t, form, value)
	h.order = append(h.order, h.main)
	h.sent = &getSentinel{"sentinel"}
	h.res = h.sent
	return h
}

// samePointer: two contents of a result buffer are the same pointer (GetTo only ever stores pointers)
func samePointer(a, b any) bool {
	va, vb := reflect.ValueOf(a), reflect.ValueOf(b)
	if !va.IsValid() || !vb.IsValid() {
		return !va.IsValid() && !vb.IsValid()
	}
	if va.Type() != vb.Type() {
		return false
	}
	switch va.Kind() {
	case reflect.Ptr, reflect.Map, reflect.Slice, reflect.UnsafePointer, reflect.Chan, reflect.Func:
		return va.Pointer() == vb.Pointer()
	}
	return false
}

// GetTo with the history's result buffer
func (h *seqHist) sharedGetTo(ins inspector.Inspector, a any, path []string) string {
	before := h.res
	h.kept = false
	err := ins.GetTo(a, &h.res, path...)
	h.kept = samePointer(before, h.res)
	if err != nil {
		return "e=" + ErrName(err)
	}
	if p, ok := h.res.(*getSentinel); ok && p == h.sent {
		return "e=nil;v=same;live=0"
	}
	return "e=nil;v=" + DumpDeref(reflect.ValueOf(h.res)) + ";live=" + liveBit(a, path, h.res)
}

func (h *seqHist) intact() bool {
	for _, o := range h.order {
		if !o.intact() {
			return false
		}
	}
	return true
}

func (h *seqHist) step(args []string) (obs string) {
	defer func() {
		if r := recover(); r != nil {
			obs = "PANIC:" + panicKind(r)
		}
	}()
	if len(args) == 0 {
		return "NOOP"
	}
	switch args[0] {
	case "loop":
		return loopObs(h.ins, h.main.arg, &h.buf, false, args[1:])
	case "oloop":
		if h.second == nil {
			return "NOOBJECT"
		}
		return loopObs(h.ins, h.second.arg, &h.buf, false, args[1:])
	case "xloop":
		o := h.others[args[1]+";"+args[2]]
		if o == nil {
			return "NOTYPE"
		}
		return loopObs(o.ins, o.arg, &h.buf, false, args[3:])
	case "get":
		return getObs(h.ins, h.main.arg, false, Path(args[1]))
	case "getto":
		return getObs(h.ins, h.main.arg, true, Path(args[1]))
	case "bgetto":
		return h.sharedGetTo(h.ins, h.main.arg, Path(args[1]))
	case "obgetto":
		if h.second == nil {
			return "NOOBJECT"
		}
		return h.sharedGetTo(h.ins, h.second.arg, Path(args[1]))
	case "xbgetto":
		o := h.others[args[1]+";"+args[2]]
		if o == nil {
			return "NOTYPE"
		}
		return h.sharedGetTo(o.ins, o.arg, Path(args[3]))
	}
	return "NOOP"
}

func sharedStep(s []string) bool {
	return len(s) > 0 && (s[0] == "bgetto" || s[0] == "obgetto" || s[0] == "xbgetto")
}

// the objects the steps touch are built before the first step runs, so that "as before the first step" covers them
func (h *seqHist) prepare(steps [][]string) {
	for _, s := range steps {
		if len(s) == 0 {
			continue
		}
		switch s[0] {
		case "oloop", "obgetto":
			if h.second == nil {
				h.second = newSeqObj(h.ins, h.t, h.form, h.value)
				h.order = append(h.order, h.second)
			}
		case "xloop", "xbgetto":
			if len(s) < 3 {
				continue
			}
			key := s[1] + ";" + s[2]
			if h.others[key] != nil {
				continue
			}
			t2, ok := types[s[1]]
			if !ok {
				continue
			}
			ins2, err := inspector.GetInspector(s[1])
			if err != nil {
				continue
			}
			o := newSeqObj(ins2, t2, "p", s[2])
			h.others[key] = o
			h.order = append(h.order, o)
		}
	}
}

// kept, per step: a step that was handed the shared result buffer left in it the very pointer it found there
func runSeq(ins inspector.Inspector, t reflect.Type, form string, steps [][]string, value string) (obs []string, same, kept []bool) {
	h := newSeqHist(ins, t, form, value)
	h.prepare(steps)
	for _, s := range steps {
		h.kept = false
		obs = append(obs, h.step(s))
		same = append(same, h.intact())
		kept = append(kept, h.kept)
	}
	return
}

func init() {
	ops["seq"] = func(ins inspector.Inspector, t reflect.Type, form string, args []string, value string) string {
		obs, same, _ := runSeq(ins, t, form, splitInner(args), value)
		var bits strings.Builder
		for _, s := range same {
			bits.WriteString(bit(s))
		}
		return strings.Join(obs, "#") + ";same=" + bits.String()
	}
	ops["seqf"] = func(ins inspector.Inspector, t reflect.Type, form string, args []string, value string) string {
		steps := splitInner(args)
		alone := make([]string, len(steps))
		for i, s := range steps {
			o, _, _ := runSeq(ins, t, "p", [][]string{s}, value)
			alone[i] = stripLive(o[0])
		}
		al := make([]string, len(steps))
		sm := make([]string, len(steps))
		for _, f := range []string{"v", "p", "pp"} {
			obs, same, kept := runSeq(ins, t, f, steps, value)
			for i := range steps {
				if sharedStep(steps[i]) && alone[i] == "e=nil;v=same" {
					// alone the call stores nothing: the caller's buffer must be exactly as it was
					al[i] += bit(kept[i])
				} else {
					al[i] += bit(stripLive(obs[i]) == alone[i])
				}
				sm[i] += bit(same[i])
			}
		}
		return "alone=" + strings.Join(al, ".") + ";same=" + strings.Join(sm, ".")
	}
}
