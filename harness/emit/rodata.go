package emit

// rodata.go: with EMIT_RODATA=1 (the hostile streams of C02, which run under lib/isolate.py) every STRING the value builder
// creates lives in READ-ONLY memory (an mmap'ed page turned PROT_READ), as string literals do.  An operation that writes into
// a string's bytes - through a zero-copy []byte view it stored earlier, say - then dies with a fault, as it would on a literal,
// instead of silently corrupting an immutable value, and the abort is observed.  ([]byte values stay writable: a slice a caller
// hands in by pointer may legitimately be written through, e.g. when the path addresses an element of a []uint8.)

import (
	"os"
	"syscall"
	"unsafe"
)

var roMode = os.Getenv("EMIT_RODATA") == "1"

var roCache = map[string][]byte{}

// roBytes returns len(b) read-only bytes with content b (nil when b is empty: there is nothing to protect).
func roBytes(b []byte) []byte {
	if len(b) == 0 {
		return nil
	}
	if r, ok := roCache[string(b)]; ok {
		return r
	}
	n := (len(b) + 4095) &^ 4095
	m, err := syscall.Mmap(-1, 0, n, syscall.PROT_READ|syscall.PROT_WRITE, syscall.MAP_ANON|syscall.MAP_PRIVATE)
	if err != nil {
		panic(err)
	}
	// the text sits at the END of the page: a write past it faults as well
	r := m[n-len(b) : n : n]
	copy(r, b)
	if err := syscall.Mprotect(m, syscall.PROT_READ); err != nil {
		panic(err)
	}
	roCache[string(b)] = r
	return r
}

func roString(b []byte) string {
	r := roBytes(b)
	if r == nil {
		return ""
	}
	return unsafe.String(&r[0], len(r))
}
