package emit

// op_hostile.go: the C02 ops - one inspector call with hostile arguments per case; the
// observation is "ok" when the call returned (whatever it returned) and PANIC:<kind> (from the
// recover of runCase) when it did not.
//
//   <type>;<form>;hx;<method>;<method args ...>;<value>
//     get;<path>  getto;<path>  len;<path>  cap;<path>  copy  reset  name
//     cmp;<op number>;<right hex or ->;<path>
//     loop;<wants>;<ctls>;<path>          ctls: N B C and X (an undefined LoopCtl)
//     set;<buf 0|1>;<source>;<path>       source: <gokind>/<v|p>/<payload> as in op_set.go, plus
//                                           <gokind>/n/       typed nil pointer to that kind
//                                           nil               untyped nil
//                                           foreign/v|p|n     struct of an unrelated type, pointer to it, nil pointer
//                                           cptr/n|z          pointer (nil / to the zero value) to the type of the struct,
//                                                             map or slice the path addresses (the replacement form of Set)
//                                           root/n|z          pointer (nil / to a zero value) to the root type
//                                           at/<k>/<n|z|e|f>  pointer to a value of the type found after k segments of the path
//                                                             (k = 0: the root type; k < len(path): a container the path goes THROUGH;
//                                                             pointers on the way are followed): n nil pointer, z to the zero value
//                                                             (nil map / nil slice / zero struct), e to an empty value (allocated
//                                                             empty maps and slices, pointers set, at every depth), f to a populated
//                                                             one (maps and slices with elements under the keys / indices the
//                                                             enumerated paths use, pointers set, scalars non-zero)
//     deq;<right form>;<opts>             right operand: the same value text in that form (same = the left argument itself)
//     copyto;<dst form>                   dst form: pz (pointer to a zero value) self (the source argument itself)
//                                         pv (pointer to a second copy of the value) v np npp nilpp nil foreign
//     unm;<bytes hex or ->;<encoding number>
//     rget;<path>                         ReflectInspector.Get (the type's own inspector is not used)
//   <type>;<form>;rv;<path>;<value>       ReflectInspector.Get: v=<what the result finally denotes>

import (
	"encoding/hex"
	"reflect"
	"strconv"
	"strings"

	"github.com/koykov/inspector"
)

// RunCase runs one case line input (for runners that link other types than the generated units).
func RunCase(input string) string { return runCase(input) }

type hostIter struct {
	wants, ctls string
	round       int
}

func (r *hostIter) RequireKey() bool {
	if len(r.wants) == 0 {
		return true
	}
	i := r.round
	if i >= len(r.wants) {
		i = len(r.wants) - 1
	}
	return r.wants[i] == '1'
}

func (r *hostIter) SetKey(val any, ins inspector.Inspector) {}

func (r *hostIter) SetVal(val any, ins inspector.Inspector) {}

func (r *hostIter) Iterate() inspector.LoopCtl {
	c := inspector.LoopCtlNone
	if r.round < len(r.ctls) {
		switch r.ctls[r.round] {
		case 'B':
			c = inspector.LoopCtlBrk
		case 'C':
			c = inspector.LoopCtlCnt
		case 'X':
			c = inspector.LoopCtl(77)
		}
	}
	r.round++
	return c
}

// typeAt follows the path through the type: struct field by name, map value, slice element, pointers.
func typeAt(t reflect.Type, path []string) reflect.Type {
	for _, seg := range path {
		for t.Kind() == reflect.Ptr {
			t = t.Elem()
		}
		switch t.Kind() {
		case reflect.Struct:
			f, ok := t.FieldByName(seg)
			if !ok {
				return t
			}
			t = f.Type
		case reflect.Map, reflect.Slice:
			t = t.Elem()
		default:
			return t
		}
	}
	return t
}

func hostileSource(t reflect.Type, path []string, text string) any {
	f := strings.SplitN(text, "/", 3)
	switch f[0] {
	case "nil":
		return nil
	case "foreign":
		switch f[1] {
		case "v":
			return foreign{X: 7}
		case "n":
			return (*foreign)(nil)
		}
		return &foreign{X: 7}
	case "cptr", "root":
		ft := t
		if f[0] == "cptr" {
			ft = typeAt(t, path)
		}
		for ft.Kind() == reflect.Ptr {
			ft = ft.Elem()
		}
		// a typed nil pointer only to a struct, map or slice type (the replacement form of Set); a nil
		// pointer to a scalar, string or []byte is the source class <gokind>/n/
		container := ft.Kind() == reflect.Struct || ft.Kind() == reflect.Map || (ft.Kind() == reflect.Slice && ft.Elem().Kind() != reflect.Uint8)
		if f[1] == "n" && container {
			return reflect.Zero(reflect.PtrTo(ft)).Interface()
		}
		return reflect.New(ft).Interface()
	}
	if f[0] == "at" {
		k, err := strconv.Atoi(f[1])
		if err != nil || len(f) < 3 {
			panic("bad source " + text)
		}
		if k > len(path) {
			k = len(path)
		}
		ft := typeAt(t, path[:k])
		for ft.Kind() == reflect.Ptr {
			ft = ft.Elem()
		}
		container := ft.Kind() == reflect.Struct || ft.Kind() == reflect.Map || (ft.Kind() == reflect.Slice && ft.Elem().Kind() != reflect.Uint8)
		pv := reflect.New(ft)
		switch f[2] {
		case "n":
			// as for cptr: a typed nil pointer to a scalar, string or []byte is the source class <gokind>/n/
			if container {
				return reflect.Zero(reflect.PtrTo(ft)).Interface()
			}
		case "z":
		case "e":
			pv.Elem().Set(fillValue(ft, false, 6))
		case "f":
			pv.Elem().Set(fillValue(ft, true, 6))
		default:
			panic("bad source " + text)
		}
		return pv.Interface()
	}
	if len(f) >= 2 && f[1] == "n" {
		kt, ok := srcKinds[f[0]]
		if !ok {
			panic("bad source kind " + f[0])
		}
		return reflect.Zero(reflect.PtrTo(kt)).Interface()
	}
	return Source(text)
}

// fillValue builds a value of type t with every pointer set and every map and slice allocated, down to the given
// depth: empty collections and zero scalars (populated = false), or collections with elements - one map entry under
// the first key of Gen/EnumVal.v's key_variants (1, "a", 1.5, true), two slice elements and spare capacity - and
// non-zero scalars (populated = true).
func fillValue(t reflect.Type, populated bool, depth int) reflect.Value {
	v := reflect.New(t).Elem()
	if depth <= 0 {
		return v
	}
	switch t.Kind() {
	case reflect.Bool:
		v.SetBool(populated)
	case reflect.Int, reflect.Int8, reflect.Int16, reflect.Int32, reflect.Int64:
		if populated {
			v.SetInt(1)
		}
	case reflect.Uint, reflect.Uint8, reflect.Uint16, reflect.Uint32, reflect.Uint64:
		if populated {
			v.SetUint(1)
		}
	case reflect.Float32, reflect.Float64:
		if populated {
			v.SetFloat(1.5)
		}
	case reflect.String:
		if populated && roMode {
			v.SetString(roString([]byte("a"))) // as the strings of the built values (rodata.go)
		} else if populated {
			v.SetString(strings.Clone("a"))
		}
	case reflect.Ptr:
		pv := reflect.New(t.Elem())
		pv.Elem().Set(fillValue(t.Elem(), populated, depth-1))
		v.Set(pv)
	case reflect.Struct:
		for i := 0; i < t.NumField(); i++ {
			if v.Field(i).CanSet() {
				v.Field(i).Set(fillValue(t.Field(i).Type, populated, depth-1))
			}
		}
	case reflect.Slice:
		if !populated {
			v.Set(reflect.MakeSlice(t, 0, 2))
			break
		}
		s := reflect.MakeSlice(t, 2, 3)
		for i := 0; i < 2; i++ {
			s.Index(i).Set(fillValue(t.Elem(), populated, depth-1))
		}
		v.Set(s)
	case reflect.Map:
		m := reflect.MakeMap(t)
		if populated {
			m.SetMapIndex(fillValue(t.Key(), populated, depth-1), fillValue(t.Elem(), populated, depth-1))
		}
		v.Set(m)
	}
	return v
}

func unhexDash(s string) []byte {
	if s == "-" {
		return nil
	}
	b, err := hex.DecodeString(s)
	if err != nil {
		panic(err)
	}
	return b
}

func init() {
	ops["hx"] = func(ins inspector.Inspector, t reflect.Type, form string, args []string, value string) string {
		a, _ := Arg(t, form, value)
		switch args[0] {
		case "name":
			_ = ins.TypeName()
		case "get":
			_, _ = ins.Get(a, Path(args[1])...)
		case "getto":
			var buf any = &getSentinel{"sentinel"}
			_ = ins.GetTo(a, &buf, Path(args[1])...)
		case "rget":
			_, _ = inspector.ReflectInspector{}.Get(a, Path(args[1])...)
			var buf any
			_ = inspector.ReflectInspector{}.GetTo(a, &buf, Path(args[1])...)
		case "len":
			n := 77
			_ = ins.Length(a, &n, Path(args[1])...)
		case "cap":
			n := 77
			_ = ins.Capacity(a, &n, Path(args[1])...)
		case "cmp":
			opn, err := strconv.Atoi(args[1])
			if err != nil {
				panic(err)
			}
			res := false
			_ = ins.Compare(a, inspector.Op(opn), string(unhexDash(args[2])), &res, Path(args[3])...)
		case "loop":
			it := &hostIter{wants: args[1], ctls: args[2]}
			buf := make([]byte, 0, 8)
			_ = ins.Loop(a, it, &buf, Path(args[3])...)
		case "set":
			path := Path(args[3])
			_ = callSet(ins, a, path, args[1] == "1", hostileSource(t, path, args[2]))
		case "deq":
			var r any
			if args[1] == "same" {
				r = a
			} else {
				r, _ = Arg(t, args[1], value)
			}
			if args[2] == "-" {
				_ = ins.DeepEqual(a, r)
				_ = ins.DeepEqual(r, a)
			} else {
				_ = ins.DeepEqualWithOptions(a, r, parseOpts(args[2]))
				_ = ins.DeepEqualWithOptions(r, a, parseOpts(args[2]))
			}
		case "copy":
			_, _ = ins.Copy(a)
		case "copyto":
			var dst any
			switch args[1] {
			case "pz":
				dst = reflect.New(t).Interface()
			case "self":
				dst = a
			case "pv":
				dst, _ = Arg(t, "p", value)
			default:
				if strings.HasPrefix(args[1], "po:") {
					// a pointer to ANOTHER value of the type: a used destination
					dst, _ = Arg(t, "p", args[1][3:])
				} else {
					dst, _ = Arg(t, args[1], value)
				}
			}
			var bb inspector.ByteBuffer
			_ = ins.CopyTo(a, dst, &bb)
		case "reset":
			_ = ins.Reset(a)
		case "unm":
			enc, err := strconv.Atoi(args[2])
			if err != nil {
				panic(err)
			}
			_, _ = ins.Unmarshal(unhexDash(args[1]), inspector.Encoding(enc))
		default:
			return "NOMETHOD"
		}
		return "ok"
	}
	ops["rv"] = func(ins inspector.Inspector, t reflect.Type, form string, args []string, value string) string {
		a, _ := Arg(t, form, value)
		got, err := inspector.ReflectInspector{}.Get(a, Path(args[0])...)
		if err != nil {
			return "e=" + ErrName(err)
		}
		return "v=" + DumpDeref(reflect.ValueOf(got))
	}
}
