// Package emit runs correspondence cases against generated inspectors of types it
// only knows through reflection.  value.go: the canonical text form of values
// (coq/Model/Value.v pr_val) - parsed into real Go values, printed from them.
package emit

import (
	"encoding/hex"
	"fmt"
	"math"
	"math/big"
	"reflect"
	"sort"
	"strconv"
	"strings"
)

type parser struct {
	s string
	i int
}

func (p *parser) peek() byte {
	if p.i < len(p.s) {
		return p.s[p.i]
	}
	return 0
}

func (p *parser) eat(c byte) {
	if p.peek() != c {
		panic(fmt.Sprintf("value syntax: want %q at %d in %q", c, p.i, p.s))
	}
	p.i++
}

func (p *parser) hasPrefix(s string) bool { return strings.HasPrefix(p.s[p.i:], s) }

// token: up to the next delimiter
func (p *parser) token() string {
	j := p.i
	for j < len(p.s) && !strings.ContainsRune(",{}[]<>=:", rune(p.s[j])) {
		j++
	}
	t := p.s[p.i:j]
	p.i = j
	return t
}

// ParseFloat reads the canonical float text F[+-]m p e / F+inf / Fnan / F-0.
func ParseFloat(t string) float64 {
	switch t {
	case "Fnan":
		return math.NaN()
	case "F+inf":
		return math.Inf(1)
	case "F-inf":
		return math.Inf(-1)
	case "F+0":
		return 0
	case "F-0":
		return math.Copysign(0, -1)
	}
	neg := t[1] == '-'
	parts := strings.Split(t[2:], "p")
	m, _ := new(big.Int).SetString(parts[0], 10)
	e, _ := strconv.Atoi(parts[1])
	f := new(big.Float).SetInt(m)
	f.SetMantExp(f, e)
	v, _ := f.Float64()
	if neg {
		v = -v
	}
	return v
}

// PrFloat prints sign, odd mantissa and binary exponent (Base/Floats.v pr_float).
func PrFloat(f float64) string {
	switch {
	case math.IsNaN(f):
		return "Fnan"
	case math.IsInf(f, 1):
		return "F+inf"
	case math.IsInf(f, -1):
		return "F-inf"
	case f == 0:
		if math.Signbit(f) {
			return "F-0"
		}
		return "F+0"
	}
	sign := "F+"
	if f < 0 {
		sign = "F-"
		f = -f
	}
	bf := new(big.Float).SetFloat64(f)
	mant := new(big.Float)
	exp := bf.MantExp(mant)
	mant.SetMantExp(mant, 53)
	m, _ := mant.Int(nil)
	e := exp - 53
	for m.Bit(0) == 0 {
		m.Rsh(m, 1)
		e++
	}
	return sign + m.String() + "p" + strconv.Itoa(e)
}

// Build parses the text as a value of type t (fresh backing arrays, capacities as prescribed).
func Build(t reflect.Type, text string) reflect.Value {
	p := &parser{s: text}
	v := p.value(t)
	if p.i != len(p.s) {
		panic("value syntax: trailing " + p.s[p.i:])
	}
	return v
}

func (p *parser) value(t reflect.Type) reflect.Value {
	v := reflect.New(t).Elem()
	switch t.Kind() {
	case reflect.Bool:
		v.SetBool(p.token() == "t")
	case reflect.Int, reflect.Int8, reflect.Int16, reflect.Int32, reflect.Int64:
		n, err := strconv.ParseInt(p.token(), 10, 64)
		if err != nil {
			panic(err)
		}
		v.SetInt(n)
	case reflect.Uint, reflect.Uint8, reflect.Uint16, reflect.Uint32, reflect.Uint64:
		n, err := strconv.ParseUint(p.token(), 10, 64)
		if err != nil {
			panic(err)
		}
		v.SetUint(n)
	case reflect.Float32, reflect.Float64:
		v.SetFloat(ParseFloat(p.token()))
	case reflect.String:
		tok := p.token()
		b, err := hex.DecodeString(tok[1:])
		if err != nil {
			panic(err)
		}
		if roMode {
			v.SetString(roString(b))
			break
		}
		// a private heap copy: string(b) of a single byte points into a table shared by the whole process
		v.SetString(strings.Clone(string(b)))
	case reflect.Ptr:
		if p.hasPrefix("nil") {
			p.i += 3
			return v
		}
		p.eat('&')
		e := p.value(t.Elem())
		pv := reflect.New(t.Elem())
		pv.Elem().Set(e)
		v.Set(pv)
	case reflect.Struct:
		p.eat('{')
		for i := 0; i < t.NumField(); i++ {
			if i > 0 {
				p.eat(',')
			}
			v.Field(i).Set(p.value(t.Field(i).Type))
		}
		p.eat('}')
	case reflect.Slice:
		if p.hasPrefix("nil") {
			p.i += 3
			return v
		}
		if t.Elem().Kind() == reflect.Uint8 && p.peek() == 'b' {
			tok := p.token() // b<hex>+<extra>
			extra := 0
			if k := strings.IndexByte(tok, '+'); k >= 0 {
				extra, _ = strconv.Atoi(tok[k+1:])
				tok = tok[:k]
			}
			b, err := hex.DecodeString(tok[1:])
			if err != nil {
				panic(err)
			}
			if roMode && len(b) == 0 && extra > 0 && t == reflect.TypeOf([]byte(nil)) {
				// an EMPTIED byte slice (x = x[:0], storage kept) whose storage is a string's: text is assigned to []byte
				// elements by reference, so the storage behind an emptied element may be read-only string memory or another
				// value's bytes - nothing may be rendered into it (C20_text_is_never_rewritten_in_place says the code never does)
				r := roBytes([]byte(strings.Repeat("~", extra)))
				v.Set(reflect.ValueOf(r[:0:extra]))
				return v
			}
			s := reflect.MakeSlice(t, len(b), len(b)+extra)
			reflect.Copy(s, reflect.ValueOf(b))
			v.Set(s)
			return v
		}
		p.eat('[')
		extra := 0
		if p.peek() == '+' {
			p.i++
			extra, _ = strconv.Atoi(p.token())
			p.eat(':')
		}
		var elems []reflect.Value
		for p.peek() != ']' {
			if len(elems) > 0 {
				p.eat(',')
			}
			elems = append(elems, p.value(t.Elem()))
		}
		p.eat(']')
		s := reflect.MakeSlice(t, len(elems), len(elems)+extra)
		for i, e := range elems {
			s.Index(i).Set(e)
		}
		v.Set(s)
	case reflect.Map:
		if p.hasPrefix("nil") {
			p.i += 3
			return v
		}
		p.eat('<')
		m := reflect.MakeMap(t)
		n := 0
		for p.peek() != '>' {
			if n > 0 {
				p.eat(',')
			}
			k := p.value(t.Key())
			p.eat('=')
			e := p.value(t.Elem())
			m.SetMapIndex(k, e)
			n++
		}
		p.eat('>')
		v.Set(m)
	default:
		panic("unsupported kind " + t.Kind().String())
	}
	return v
}

// Dump prints a value in the canonical observation form (no capacities, maps sorted
// by rendered key).
func Dump(v reflect.Value) string {
	if !v.IsValid() {
		return "none"
	}
	switch v.Kind() {
	case reflect.Bool:
		if v.Bool() {
			return "t"
		}
		return "f"
	case reflect.Int, reflect.Int8, reflect.Int16, reflect.Int32, reflect.Int64:
		return strconv.FormatInt(v.Int(), 10)
	case reflect.Uint, reflect.Uint8, reflect.Uint16, reflect.Uint32, reflect.Uint64:
		return strconv.FormatUint(v.Uint(), 10)
	case reflect.Float32, reflect.Float64:
		return PrFloat(v.Float())
	case reflect.String:
		return "s" + hex.EncodeToString([]byte(v.String()))
	case reflect.Ptr:
		if v.IsNil() {
			return "nil"
		}
		return "&" + Dump(v.Elem())
	case reflect.Interface:
		if v.IsNil() {
			return "none"
		}
		return Dump(v.Elem())
	case reflect.Struct:
		parts := make([]string, v.NumField())
		for i := range parts {
			parts[i] = Dump(v.Field(i))
		}
		return "{" + strings.Join(parts, ",") + "}"
	case reflect.Slice:
		if v.IsNil() {
			return "nil"
		}
		if v.Type().Elem().Kind() == reflect.Uint8 {
			return "b" + hex.EncodeToString(v.Bytes())
		}
		parts := make([]string, v.Len())
		for i := range parts {
			parts[i] = Dump(v.Index(i))
		}
		return "[" + strings.Join(parts, ",") + "]"
	case reflect.Map:
		if v.IsNil() {
			return "nil"
		}
		type kv struct{ k, v string }
		var kvs []kv
		it := v.MapRange()
		for it.Next() {
			kvs = append(kvs, kv{Dump(it.Key()), Dump(it.Value())})
		}
		sort.SliceStable(kvs, func(i, j int) bool { return kvs[i].k < kvs[j].k })
		parts := make([]string, len(kvs))
		for i, e := range kvs {
			parts[i] = e.k + "=" + e.v
		}
		return "<" + strings.Join(parts, ",") + ">"
	}
	return "?" + v.Kind().String()
}

// DumpDeref follows pointers first: what a returned reference finally denotes.
func DumpDeref(v reflect.Value) string {
	for v.IsValid() && (v.Kind() == reflect.Ptr || v.Kind() == reflect.Interface) {
		if v.IsNil() {
			if v.Kind() == reflect.Interface {
				return "none"
			}
			return "nil"
		}
		v = v.Elem()
	}
	return Dump(v)
}
