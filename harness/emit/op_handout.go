package emit

// op_handout.go - C15: what generated code HANDS OUT.  Loop gives the iterator, with every key and
// every element, the inspector to read it with (Iterator.SetKey / SetVal).  "Generated inspectors
// never use reflection" covers those as well: whatever an iterator does with the value it was handed
// runs through the inspector that came with it.
//
//	input:  <Type>;<forms>;handout;<path>;<value>
//
// <forms>: argument forms joined by '+' (v = T by value, p = *T, pp = **T).  Loop runs over the path once
// per form with an iterator that wants every key; the DYNAMIC TYPE of every inspector it is handed is
// classified and the names are collected over all rounds and all forms:
//
//	key=<set>;val=<set>       a set = sorted names joined by '+', '-' when nothing was handed over
//
// names (the TypeName() of an inspector says what it claims to be, not what it is: the Go type decides)
//
//	<TypeName()>      the type is <X>Inspector of a package <pkg>_ins: an inspector a generator wrote (its
//	                  source is scanned for reflection by the post hook of checks/C15.py), or one of the
//	                  library's inspectors that work without package reflect: StaticInspector ("static"),
//	                  StringsInspector ("strings"), StringAnyMapInspector ("map[string]any")
//	lib:<Go type>     any other type of package inspector (ReflectInspector, BaseInspector, ...)
//	foreign:<Go type> anything else
//	none              a nil inspector

import (
	"reflect"
	"sort"
	"strings"

	"github.com/koykov/inspector"
)

const libPath = "github.com/koykov/inspector"

var unreflectiveLib = map[string]bool{"StaticInspector": true, "StringsInspector": true, "StringAnyMapInspector": true}

func handedName(ins inspector.Inspector) string {
	if ins == nil {
		return "none"
	}
	t := reflect.TypeOf(ins)
	for t.Kind() == reflect.Ptr {
		t = t.Elem()
	}
	switch {
	case t.PkgPath() == libPath && unreflectiveLib[t.Name()]:
		return ins.TypeName()
	case t.PkgPath() == libPath:
		return "lib:" + t.Name()
	case strings.HasSuffix(t.PkgPath(), "_ins") && strings.HasSuffix(t.Name(), "Inspector") && t.Kind() == reflect.Struct:
		return ins.TypeName()
	}
	return "foreign:" + t.String()
}

type handIter struct{ keys, vals map[string]bool }

func (i *handIter) RequireKey() bool { return true }
func (i *handIter) SetKey(_ any, ins inspector.Inspector) {
	i.keys[handedName(ins)] = true
}
func (i *handIter) SetVal(_ any, ins inspector.Inspector) {
	i.vals[handedName(ins)] = true
}
func (i *handIter) Iterate() inspector.LoopCtl { return inspector.LoopCtlNone }

func nameSet(m map[string]bool) string {
	if len(m) == 0 {
		return "-"
	}
	l := make([]string, 0, len(m))
	for k := range m {
		l = append(l, k)
	}
	sort.Strings(l)
	return strings.Join(l, "+")
}

func init() {
	ops["handout"] = func(ins inspector.Inspector, t reflect.Type, form string, args []string, value string) string {
		path := Path(args[0])
		it := &handIter{keys: map[string]bool{}, vals: map[string]bool{}}
		for _, f := range strings.Split(form, "+") {
			a, _ := Arg(t, f, value)
			buf := make([]byte, 0, 16)
			if err := ins.Loop(a, it, &buf, path...); err != nil {
				return "e=" + ErrName(err)
			}
		}
		return "key=" + nameSet(it.keys) + ";val=" + nameSet(it.vals)
	}
}
