package emit

// op_forms.go: the C12 ops - argument forms and "reads never write".
//
//	forms;<inner>|<inner>|...              every inner = <op>;<args...> of another op of this package.  Runs each inner op
//	                                       three times, the value handed over as T, *T and **T, every time through a
//	                                       proxy inspector that dumps every argument of every call before and after it:
//	                                           agree=<v~p><pp~p>.<v~p><pp~p>. ... ;same=<v><p><pp>
//	                                       agree, per inner op: the inner observation of that form is the one of form p
//	                                       (for get / getto the liveness bit is left out: by value the root is a copy);
//	                                       same, per form: no argument an operation only reads changed in any inner op.
//	pure;<inner>|<inner>|...               runs the inner ops once in the form of the case, through the same proxy:
//	                                           <inner observation>#<inner observation>#...;same=<0|1>
//	freset;<value>                         Reset(x), x in the form of the case:  e=<err>;d=<the value afterwards>
//	fcopy;<value>                          Copy(x):  e=<err>  |  e=nil;d=<the copy>
//	fcopyto;<dst form>;<dst value>;<value> CopyTo(src, dst, buf):  e=<err>;d=<the destination afterwards>
//
// The proxy counts Reset's argument and CopyTo's destination as written (reported by the d= dumps of the ops),
// everything else as read.

import (
	"reflect"
	"strings"

	"github.com/koykov/inspector"
)

type formsProxy struct {
	in   inspector.Inspector
	same bool // no read argument changed so far
}

func dumpAny(a any) string {
	return DumpB(reflect.ValueOf(a))
}

// watch dumps the read arguments, runs f, and compares
func (p *formsProxy) watch(f func(), reads ...any) {
	before := make([]string, len(reads))
	for i, a := range reads {
		before[i] = dumpAny(a)
	}
	defer func() {
		for i, a := range reads {
			if dumpAny(a) != before[i] {
				p.same = false
			}
		}
	}()
	f()
}

func (p *formsProxy) TypeName() string { return p.in.TypeName() }
func (p *formsProxy) Get(src any, path ...string) (r any, err error) {
	p.watch(func() { r, err = p.in.Get(src, path...) }, src)
	return
}
func (p *formsProxy) GetTo(src any, buf *any, path ...string) (err error) {
	p.watch(func() { err = p.in.GetTo(src, buf, path...) }, src)
	return
}
func (p *formsProxy) Set(dst, value any, path ...string) (err error) {
	p.watch(func() { err = p.in.Set(dst, value, path...) }, value)
	return
}
func (p *formsProxy) SetWithBuffer(dst, value any, buf inspector.AccumulativeBuffer, path ...string) (err error) {
	p.watch(func() { err = p.in.SetWithBuffer(dst, value, buf, path...) }, value)
	return
}
func (p *formsProxy) Compare(src any, cond inspector.Op, right string, result *bool, path ...string) (err error) {
	p.watch(func() { err = p.in.Compare(src, cond, right, result, path...) }, src)
	return
}
func (p *formsProxy) Loop(src any, iter inspector.Iterator, buf *[]byte, path ...string) (err error) {
	p.watch(func() { err = p.in.Loop(src, iter, buf, path...) }, src)
	return
}
func (p *formsProxy) DeepEqual(l, r any) (b bool) {
	p.watch(func() { b = p.in.DeepEqual(l, r) }, l, r)
	return
}
func (p *formsProxy) DeepEqualWithOptions(l, r any, options *inspector.DEQOptions) (b bool) {
	p.watch(func() { b = p.in.DeepEqualWithOptions(l, r, options) }, l, r)
	return
}
func (p *formsProxy) Unmarshal(b []byte, typ inspector.Encoding) (any, error) {
	return p.in.Unmarshal(b, typ)
}
func (p *formsProxy) Copy(x any) (r any, err error) {
	p.watch(func() { r, err = p.in.Copy(x) }, x)
	return
}
func (p *formsProxy) CopyTo(src, dst any, buf inspector.AccumulativeBuffer) (err error) {
	p.watch(func() { err = p.in.CopyTo(src, dst, buf) }, src)
	return
}
func (p *formsProxy) Length(src any, result *int, path ...string) (err error) {
	p.watch(func() { err = p.in.Length(src, result, path...) }, src)
	return
}
func (p *formsProxy) Capacity(src any, result *int, path ...string) (err error) {
	p.watch(func() { err = p.in.Capacity(src, result, path...) }, src)
	return
}
func (p *formsProxy) Reset(x any) error { return p.in.Reset(x) }

// runInner runs an inner op in one form through a fresh proxy; a panic is an observation
func runInner(ins inspector.Inspector, t reflect.Type, form string, args []string, value string) (obs string, same bool) {
	if len(args) == 0 {
		return "NOOP", true
	}
	px := &formsProxy{in: ins, same: true}
	defer func() {
		if r := recover(); r != nil {
			obs = "PANIC:" + panicKind(r)
		}
		same = px.same
	}()
	op, ok := ops[args[0]]
	if !ok {
		return "NOOP", true
	}
	return op(px, t, form, args[1:], value), true
}

// the inner ops of a forms / pure case: the op arguments joined again and split at '|'
func splitInner(args []string) [][]string {
	var out [][]string
	for _, part := range strings.Split(strings.Join(args, ";"), "|") {
		out = append(out, strings.Split(part, ";"))
	}
	return out
}

// the answer without the liveness bit of get / getto
func stripLive(s string) string {
	if i := strings.Index(s, ";live="); i >= 0 {
		return s[:i]
	}
	return s
}

func init() {
	ops["forms"] = func(ins inspector.Inspector, t reflect.Type, form string, args []string, value string) string {
		var agree []string
		sameV, sameP, samePP := true, true, true
		for _, inner := range splitInner(args) {
			ov, sv := runInner(ins, t, "v", inner, value)
			op, sp := runInner(ins, t, "p", inner, value)
			opp, spp := runInner(ins, t, "pp", inner, value)
			agree = append(agree, bit(stripLive(ov) == stripLive(op))+bit(stripLive(opp) == stripLive(op)))
			sameV, sameP, samePP = sameV && sv, sameP && sp, samePP && spp
		}
		return "agree=" + strings.Join(agree, ".") + ";same=" + bit(sameV) + bit(sameP) + bit(samePP)
	}
	ops["pure"] = func(ins inspector.Inspector, t reflect.Type, form string, args []string, value string) string {
		var obs []string
		same := true
		for _, inner := range splitInner(args) {
			o, s := runInner(ins, t, form, inner, value)
			obs = append(obs, o)
			same = same && s
		}
		return strings.Join(obs, "#") + ";same=" + bit(same)
	}
	ops["freset"] = func(ins inspector.Inspector, t reflect.Type, form string, args []string, value string) string {
		a, after := formsArg(t, form, value)
		err := ins.Reset(a)
		return "e=" + ErrName(err) + ";d=" + after()
	}
	ops["fcopy"] = func(ins inspector.Inspector, t reflect.Type, form string, args []string, value string) string {
		a, _ := formsArg(t, form, value)
		r, err := ins.Copy(a)
		if err != nil {
			return "e=" + ErrName(err)
		}
		rv := reflect.ValueOf(r)
		if !rv.IsValid() {
			return "e=nil;d=none"
		}
		if rv.Kind() == reflect.Ptr && !rv.IsNil() {
			rv = rv.Elem()
		}
		return "e=nil;d=" + DumpB(rv)
	}
	ops["fcopyto"] = func(ins inspector.Inspector, t reflect.Type, form string, args []string, value string) string {
		a, _ := formsArg(t, form, value)
		d, after := formsArg(t, args[0], args[1])
		err := ins.CopyTo(a, d, inspector.NewByteBuffer(64))
		return "e=" + ErrName(err) + ";d=" + after()
	}
}

// formsArg is Arg with the raw dump (an empty []byte prints "b" nil or not)
func formsArg(t reflect.Type, form, value string) (any, func() string) {
	switch form {
	case "v", "p", "pp":
		v := Build(t, value)
		pv := reflect.New(t)
		pv.Elem().Set(v)
		dump := func() string { return DumpB(pv.Elem()) }
		switch form {
		case "v":
			return pv.Elem().Interface(), dump
		case "p":
			return pv.Interface(), dump
		}
		ppv := reflect.New(pv.Type())
		ppv.Elem().Set(pv)
		return ppv.Interface(), dump
	}
	return Arg(t, form, value)
}
