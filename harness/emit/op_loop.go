package emit

// op_loop.go: Loop of generated inspectors observed with a recording iterator (C09).
//
//   loop;<canon>;<wants>;<ctls>;<path>      abstract trace: key texts parsed back, handed values followed through pointers
//   loopraw;<canon>;<wants>;<ctls>;<path>   concrete trace: raw key texts (hex), handed values as handed
//
// canon "o": rounds in call order; "s:<kind>": key texts are read back as <kind>, rounds sorted, and when a
// Break fired only the number of rounds and whether they are distinct rounds of the full iteration.
// The text forms are those of coq/Gen/GenC09.v.

import (
	"encoding/hex"
	"reflect"
	"sort"
	"strconv"
	"strings"

	"github.com/koykov/inspector"
)

type loopEvent struct {
	kind    byte // 'R' 'K' 'V' 'I'
	ans     bool
	keyText string
	keyOK   bool
	ins     string
	deref   string // the handed value followed through pointers
	raw     string // the handed value as handed
	rd      string // the handed inspector reads the handed value
	ctl     inspector.LoopCtl
}

type recIter struct {
	wants, ctls string
	round       int
	events      []loopEvent
	// native look-up of every reported key (histories, op_loophist.go): the collection the path denotes, reached
	// by reflection before the call; the key text reported in the current round; has a look-up failed
	coll     reflect.Value
	lookup   bool
	pending  *string
	lookFail bool
}

func (r *recIter) want() bool {
	if len(r.wants) == 0 {
		return true
	}
	i := r.round
	if i >= len(r.wants) {
		i = len(r.wants) - 1
	}
	return r.wants[i] == '1'
}

func insName(ins inspector.Inspector) string {
	if ins == nil {
		return "none"
	}
	return ins.TypeName()
}

func (r *recIter) RequireKey() bool {
	w := r.want()
	r.events = append(r.events, loopEvent{kind: 'R', ans: w})
	return w
}

func (r *recIter) SetKey(val any, ins inspector.Inspector) {
	e := loopEvent{kind: 'K', ins: insName(ins)}
	switch x := val.(type) {
	case *[]byte:
		if x != nil {
			e.keyText, e.keyOK = string(*x), true
		}
	case []byte:
		e.keyText, e.keyOK = string(x), true
	case string:
		e.keyText, e.keyOK = x, true
	case *string:
		if x != nil {
			e.keyText, e.keyOK = *x, true
		}
	}
	if r.lookup {
		r.pending = nil
		if e.keyOK {
			t := e.keyText
			r.pending = &t
		} else {
			r.lookFail = true
		}
	}
	r.events = append(r.events, e)
}

// readable: the inspector handed over with a value reads that value (Get with the empty path yields it).
func readable(val any, ins inspector.Inspector) (res string) {
	defer func() {
		if recover() != nil {
			res = "0"
		}
	}()
	if ins == nil {
		return "0"
	}
	want := DumpDeref(reflect.ValueOf(val))
	if want == "nil" || want == "none" {
		if ins.TypeName() == "" {
			return "0"
		}
		return "1"
	}
	got, err := ins.Get(val)
	if err != nil {
		return "0"
	}
	if DumpDeref(reflect.ValueOf(got)) == want {
		return "1"
	}
	return "0"
}

func (r *recIter) SetVal(val any, ins inspector.Inspector) {
	rv := reflect.ValueOf(val)
	e := loopEvent{kind: 'V', ins: insName(ins), deref: DumpDeref(rv), raw: Dump(rv), rd: readable(val, ins)}
	if r.lookup && r.pending != nil {
		if !keyDenotes(r.coll, *r.pending, e.deref) {
			r.lookFail = true
		}
		r.pending = nil
	}
	r.events = append(r.events, e)
}

func (r *recIter) Iterate() inspector.LoopCtl {
	c := inspector.LoopCtlNone
	if r.round < len(r.ctls) {
		switch r.ctls[r.round] {
		case 'B':
			c = inspector.LoopCtlBrk
		case 'C':
			c = inspector.LoopCtlCnt
		}
	}
	r.round++
	r.pending = nil
	r.events = append(r.events, loopEvent{kind: 'I', ctl: c})
	return c
}

func ctlLetter(c inspector.LoopCtl) string {
	switch c {
	case inspector.LoopCtlBrk:
		return "B"
	case inspector.LoopCtlCnt:
		return "C"
	}
	return "N"
}

// keyBack: what a key text parses back to for a key kind, in the canonical dump form ("none" = unparsable).
func keyBack(kind, text string) string {
	switch kind {
	case "":
		return "s" + hex.EncodeToString([]byte(text))
	case "string":
		return "s" + hex.EncodeToString([]byte(text))
	case "bool":
		b, err := strconv.ParseBool(text)
		if err != nil {
			return "none"
		}
		if b {
			return "t"
		}
		return "f"
	case "int", "int8", "int16", "int32", "int64":
		t, err := strconv.ParseInt(text, 0, 0)
		if err != nil {
			return "none"
		}
		switch kind {
		case "int8":
			t = int64(int8(t))
		case "int16":
			t = int64(int16(t))
		case "int32":
			t = int64(int32(t))
		}
		return strconv.FormatInt(t, 10)
	case "uint", "uint8", "uint16", "uint32", "uint64", "byte":
		t, err := strconv.ParseUint(text, 0, 0)
		if err != nil {
			return "none"
		}
		switch kind {
		case "uint8", "byte":
			t = uint64(uint8(t))
		case "uint16":
			t = uint64(uint16(t))
		case "uint32":
			t = uint64(uint32(t))
		}
		return strconv.FormatUint(t, 10)
	case "float64":
		f, err := strconv.ParseFloat(text, 64)
		if err != nil {
			return "none"
		}
		return PrFloat(f)
	case "float32":
		f, err := strconv.ParseFloat(text, 64)
		if err != nil {
			return "none"
		}
		return PrFloat(float64(float32(f)))
	}
	return "none"
}

func (e loopEvent) token(kind string, raw bool) string {
	switch e.kind {
	case 'R':
		if e.ans {
			return "R1"
		}
		return "R0"
	case 'K':
		if raw {
			return "K" + hex.EncodeToString([]byte(e.keyText)) + "/" + e.ins
		}
		if !e.keyOK {
			return "Knone/" + e.ins
		}
		return "K" + keyBack(kind, e.keyText) + "/" + e.ins
	case 'V':
		if raw {
			return "V" + e.raw + "/" + e.ins
		}
		return "V" + e.deref + "/" + e.ins + "/" + e.rd
	}
	return "I" + ctlLetter(e.ctl)
}

// rounds: the events split after every Iterate, as texts; keepIter: include the I token
func roundsOf(evs []loopEvent, kind string, raw, keepIter bool) []string {
	var out []string
	var cur []string
	for _, e := range evs {
		if e.kind != 'I' || keepIter {
			cur = append(cur, e.token(kind, raw))
		}
		if e.kind == 'I' {
			out = append(out, strings.Join(cur, ","))
			cur = nil
		}
	}
	if len(cur) > 0 {
		out = append(out, strings.Join(cur, ","))
	}
	return out
}

func ctlLetters(evs []loopEvent) string {
	var b strings.Builder
	for _, e := range evs {
		if e.kind == 'I' {
			b.WriteString(ctlLetter(e.ctl))
		}
	}
	return b.String()
}

func subMultiset(a, b []string) bool {
	left := map[string]int{}
	for _, x := range b {
		left[x]++
	}
	for _, x := range a {
		if left[x] == 0 {
			return false
		}
		left[x]--
	}
	return true
}

// loopObs runs one Loop over the argument a with the caller's key buffer buf and prints the observation of the
// ops below.  args = <canon>;<wants>;<ctls>;<path>.  The buffer belongs to the caller: a sequence of reads may hand
// the same one to every call (op_seq.go).
func loopObs(ins inspector.Inspector, a any, buf *[]byte, raw bool, args []string) string {
	obs, _ := loopObsLook(ins, a, buf, raw, args, false)
	return obs
}

// loopObsLook: the same; with look every key text the iterator is handed is looked up NATIVELY (reflection) in the
// collection the path denotes in the argument, at the moment the element comes (SetVal): ok = every reported key
// is the key of an element of that collection and that element is what was handed over with it.
func loopObsLook(ins inspector.Inspector, a any, buf *[]byte, raw bool, args []string, look bool) (obs string, ok bool) {
	canon, wants, ctls, path := args[0], args[1], args[2], Path(args[3])
	it := &recIter{wants: wants, ctls: ctls}
	if look {
		it.lookup = true
		if c, found := NavNative(reflect.ValueOf(a), path); found {
			it.coll = c
		}
	}
	err := ins.Loop(a, it, buf, path...)
	obs = loopText(ins, a, it, err, canon, wants, path, raw)
	return obs, !it.lookFail
}

func loopText(ins inspector.Inspector, a any, it *recIter, err error, canon, wants string, path []string, raw bool) string {
	sorted := strings.HasPrefix(canon, "s")
	kind := ""
	if sorted && len(canon) > 2 {
		kind = canon[2:]
	}
	head := "e=" + ErrName(err) + ";"
	if raw {
		rs := roundsOf(it.events, kind, true, true)
		if sorted {
			sort.Strings(rs)
			return head + "s;" + strings.Join(rs, "|")
		}
		return head + "o;" + strings.Join(rs, "|")
	}
	if !sorted {
		return head + "o;" + strings.Join(roundsOf(it.events, kind, false, true), "|")
	}
	rs := roundsOf(it.events, kind, false, false)
	broke := len(it.events) > 0 && it.events[len(it.events)-1].kind == 'I' && it.events[len(it.events)-1].ctl == inspector.LoopCtlBrk
	if broke {
		// the full iteration, for membership
		full := &recIter{wants: wants, ctls: ""}
		buf2 := make([]byte, 0, 8)
		_ = ins.Loop(a, full, &buf2, path...)
		sub := "0"
		if subMultiset(rs, roundsOf(full.events, kind, false, false)) {
			sub = "1"
		}
		return head + "b;n=" + strconv.Itoa(len(rs)) + ";sub=" + sub + ";c=" + ctlLetters(it.events)
	}
	sort.Strings(rs)
	return head + "s;" + strings.Join(rs, "|") + ";c=" + ctlLetters(it.events)
}

func init() {
	mk := func(raw bool) opfn {
		return func(ins inspector.Inspector, t reflect.Type, form string, args []string, value string) string {
			a, _ := Arg(t, form, value)
			buf := make([]byte, 0, 8)
			return loopObs(ins, a, &buf, raw, args)
		}
	}
	ops["loop"] = mk(false)
	ops["loopraw"] = mk(true)
}
