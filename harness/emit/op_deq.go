package emit

// op_deq.go: DeepEqual / DeepEqualWithOptions of generated inspectors (C05, C11), and the
// two run-time helpers the emitted code calls (DEQMustCheck, EqualFloat64/32).
//
//   <type>;<formL>;deq;<formR>;<opts>;<same|ind>;<value a>;<value b>
//       opts  "-"   DeepEqual(l, r)
//             "nil" DeepEqualWithOptions(l, r, nil)
//             P<float>/E<hex,hex,...>/F<hex,...>   DeepEqualWithOptions with these options
//       same  the right operand is the left operand itself (one object, passed twice);
//       ind   the right operand is built independently from its own text (fresh allocations,
//             so pointer-keyed maps get fresh keys).
//     observation: ab=<t|f>;ba=<t|f>  (both argument orders)
//   <type>;-;deqm;<opts>;<same|ind>;<value a>;<value b>
//       the argument-form matrix: every ordered combination (lf, rf) of the forms v (T), p (*T), pp (**T);
//       all forms of one operand are views of ONE object (v: the interface copy of it, p: its address,
//       pp: the address of that pointer); same: both operands are views of one object.
//     observation: <lf>-<rf>=<ab><ba> joined by ';'   ab: call(a as lf, b as rf), ba: call(b as rf, a as lf)
//   <type>;-;mustcheck;<opts>;<hex path>        observation t|f
//   <type>;-;eqf;<32|64>;<opts>;<float a>;<float b>   observation t|f

import (
	"encoding/hex"
	"reflect"
	"strings"

	"github.com/koykov/inspector"
)

func parseOpts(s string) *inspector.DEQOptions {
	if s == "nil" || s == "-" {
		return nil
	}
	parts := strings.Split(s, "/")
	o := &inspector.DEQOptions{}
	o.Precision = ParseFloat(parts[0][1:])
	set := func(t string) map[string]struct{} {
		m := map[string]struct{}{}
		if t == "" {
			return m
		}
		for _, h := range strings.Split(t, ",") {
			b, err := hex.DecodeString(h)
			if err != nil {
				panic(err)
			}
			m[string(b)] = struct{}{}
		}
		return m
	}
	o.Exclude = set(parts[1][1:])
	o.Filter = set(parts[2][1:])
	return o
}

// optsWritten is set when a call changed the options object it was handed (DeepEqual is a read operation: it changes
// neither its operands nor its options - a default written into the caller's options is a write to what callers share)
var optsWritten bool

func sameOpts(a, b *inspector.DEQOptions) bool {
	if a == nil || b == nil {
		return a == b
	}
	if a.Precision != b.Precision || len(a.Exclude) != len(b.Exclude) || len(a.Filter) != len(b.Filter) ||
		(a.Exclude == nil) != (b.Exclude == nil) || (a.Filter == nil) != (b.Filter == nil) {
		return false
	}
	for k := range a.Exclude {
		if _, ok := b.Exclude[k]; !ok {
			return false
		}
	}
	for k := range a.Filter {
		if _, ok := b.Filter[k]; !ok {
			return false
		}
	}
	return true
}

// withOpts runs f on options parsed from the text and checks them against a second parse afterwards
func withOpts(optText string, f func(o *inspector.DEQOptions) bool) bool {
	o := parseOpts(optText)
	r := f(o)
	if !sameOpts(o, parseOpts(optText)) {
		optsWritten = true
	}
	return r
}

func optsMark() string {
	if optsWritten {
		optsWritten = false
		return ";options-written"
	}
	return ""
}

func tf(b bool) string {
	if b {
		return "t"
	}
	return "f"
}

var valueForms = []string{"v", "p", "pp"}

// argForms builds one object from the value text and returns it in the three value forms.
func argForms(t reflect.Type, value string) map[string]any {
	v := Build(t, value)
	pv := reflect.New(t)
	pv.Elem().Set(v)
	ppv := reflect.New(pv.Type())
	ppv.Elem().Set(pv)
	return map[string]any{"v": pv.Elem().Interface(), "p": pv.Interface(), "pp": ppv.Interface()}
}

func init() {
	ops["deqm"] = func(ins inspector.Inspector, t reflect.Type, form string, args []string, value string) string {
		optText, mode, valueA := args[0], args[1], args[2]
		as := argForms(t, valueA)
		bs := as
		if mode != "same" {
			bs = argForms(t, value)
		}
		call := func(l, r any) bool {
			if optText == "-" {
				return ins.DeepEqual(l, r)
			}
			return withOpts(optText, func(o *inspector.DEQOptions) bool { return ins.DeepEqualWithOptions(l, r, o) })
		}
		optsWritten = false
		var cells []string
		for _, lf := range valueForms {
			for _, rf := range valueForms {
				cells = append(cells, lf+"-"+rf+"="+tf(call(as[lf], bs[rf]))+tf(call(bs[rf], as[lf])))
			}
		}
		return strings.Join(cells, ";") + optsMark()
	}
	ops["deq"] = func(ins inspector.Inspector, t reflect.Type, form string, args []string, value string) string {
		formR, optText, mode, valueA := args[0], args[1], args[2], args[3]
		la, _ := Arg(t, form, valueA)
		var ra any
		if mode == "same" {
			ra = la
		} else {
			ra, _ = Arg(t, formR, value)
		}
		call := func(l, r any) bool {
			if optText == "-" {
				return ins.DeepEqual(l, r)
			}
			return withOpts(optText, func(o *inspector.DEQOptions) bool { return ins.DeepEqualWithOptions(l, r, o) })
		}
		optsWritten = false
		ab := call(la, ra)
		ba := call(ra, la)
		return "ab=" + tf(ab) + ";ba=" + tf(ba) + optsMark()
	}
	ops["mustcheck"] = func(ins inspector.Inspector, t reflect.Type, form string, args []string, value string) string {
		b, err := hex.DecodeString(value)
		if err != nil {
			panic(err)
		}
		return tf(inspector.DEQMustCheck(string(b), parseOpts(args[0])))
	}
	ops["eqf"] = func(ins inspector.Inspector, t reflect.Type, form string, args []string, value string) string {
		a, b := ParseFloat(args[2]), ParseFloat(value)
		optsWritten = false
		r := withOpts(args[1], func(o *inspector.DEQOptions) bool {
			if args[0] == "32" {
				return inspector.EqualFloat32(float32(a), float32(b), o)
			}
			return inspector.EqualFloat64(a, b, o)
		})
		return tf(r) + optsMark()
	}
}
