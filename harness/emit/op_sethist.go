package emit

// op_sethist.go: C03 on HISTORIES - several Set / SetWithBuffer calls on ONE object sharing ONE inspector.ByteBuffer.
//
//   sethist;<bufmode>;<calls>        run the calls one after the other, then   e=<error of the last call>;obj=<dump of the object>
//   sethistframe;<bufmode>;<calls>   the same calls; after EVERY call the frame condition is decided natively (as op setframe does
//                                    for one call): every location off the call's path is what it was right before that call
//                                    (containers and entries on the path possibly created), and no memory the object referenced
//                                    before the call - the texts the earlier calls stored among it - was written:
//                                    frame=<r1>,<r2>,...   r = 1 | 0 | 0:storage-written(..) | 0:decoy-written(..) | PANIC:<kind>
//
//   <calls>   = <call>|<call>|...      <call> = <path>,<buffered 0|1>,<src>     (path and src as in op set)
//   <bufmode> = z      a zero ByteBuffer
//               c<n>   NewByteBuffer(n)
//               u<n>   NewByteBuffer(n) that somebody else used before (two buffered conversions into variables of the
//                      harness): what it handed out then has to stay what it is while the history runs
//               r<n>   the same buffer after Reset (length 0, stale content: nothing handed out before is owed anything)
//   Calls with buffered = 0 are plain Set calls on the same object (no buffer).

import (
	"reflect"
	"strconv"
	"strings"
	"unsafe"

	"github.com/koykov/inspector"
)

type histCall struct {
	path     []string
	buffered bool
	src      string
}

func parseCalls(text string) []histCall {
	var out []histCall
	for _, c := range strings.Split(text, "|") {
		f := strings.SplitN(c, ",", 3)
		if len(f) != 3 {
			panic("bad call " + c)
		}
		out = append(out, histCall{path: Path(f[0]), buffered: f[1] == "1", src: f[2]})
	}
	return out
}

// histBuffer builds the buffer of a history; the witnesses are what an earlier user of the buffer still holds.
func histBuffer(mode string) (*inspector.ByteBuffer, []storageWitness) {
	if mode == "z" {
		return &inspector.ByteBuffer{}, nil
	}
	n, err := strconv.Atoi(mode[1:])
	if err != nil {
		panic("bad buffer mode " + mode)
	}
	bb := inspector.NewByteBuffer(n)
	switch mode[0] {
	case 'c':
		return bb, nil
	case 'u', 'r':
		var s string
		var b []byte
		inspector.AssignBuf(&s, int64(987654321), bb)
		inspector.AssignBuf(&b, 4.5, bb)
		if mode[0] == 'r' {
			bb.Reset()
			return bb, nil
		}
		var wit []storageWitness
		if len(s) > 0 {
			wit = append(wit, storageWitness{view: unsafe.Slice(unsafe.StringData(s), len(s)), was: strings.Clone(s)})
		}
		if len(b) > 0 {
			wit = append(wit, storageWitness{view: b, was: string(b)})
		}
		return bb, wit
	}
	panic("bad buffer mode " + mode)
}

func histSet(ins inspector.Inspector, a any, c histCall, bb *inspector.ByteBuffer) error {
	if c.buffered {
		return ins.SetWithBuffer(a, Source(c.src), bb, c.path...)
	}
	return ins.Set(a, Source(c.src), c.path...)
}

func init() {
	object := func(a any, t reflect.Type) reflect.Value {
		v := reflect.ValueOf(a)
		for v.Kind() == reflect.Ptr && v.Type() != t {
			v = v.Elem()
		}
		return v
	}
	ops["sethist"] = func(ins inspector.Inspector, t reflect.Type, form string, args []string, value string) string {
		bb, _ := histBuffer(args[0])
		calls := parseCalls(args[1])
		a, _ := Arg(t, form, value)
		var err error
		for _, c := range calls {
			err = histSet(ins, a, c, bb)
		}
		return "e=" + ErrName(err) + ";obj=" + dumpS(object(a, t))
	}
	ops["sethistframe"] = func(ins inspector.Inspector, t reflect.Type, form string, args []string, value string) string {
		bb, decoys := histBuffer(args[0])
		calls := parseCalls(args[1])
		a, _ := Arg(t, form, value)
		var res []string
		for _, c := range calls {
			before := Build(t, Dump(object(a, t))) // a private copy of the object as it is right before the call
			wit := frameWitnesses(a, c.path)
			r := func() (r string) {
				defer func() {
					if p := recover(); p != nil {
						r = "PANIC:" + panicKind(p)
					}
				}()
				histSet(ins, a, c, bb)
				return ""
			}()
			if r != "" {
				res = append(res, r)
				break
			}
			switch w, d := writtenWitness(wit), writtenWitness(decoys); {
			case w != "":
				r = "0:" + w
			case d != "":
				r = "0:decoy-" + strings.TrimPrefix(d, "storage-")
			case offPath(t, c.path, before, object(a, t)):
				r = "1"
			default:
				r = "0"
			}
			res = append(res, r)
		}
		return "frame=" + strings.Join(res, ",")
	}
}
