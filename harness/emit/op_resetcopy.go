package emit

// op_resetcopy.go: ops of the C08 stream (Reset, Reset-then-CopyTo histories) and of the
// C06 stream (Copy / CopyTo: equality, structure, sharing) on generated inspectors.
//
//	reset;<mode>;<value>
//	cycle;<mode>;<buffer capacity>;<initial destination>;<source>|<source>|...
//	copy;<mode>;<src form>;<value>                      Copy(x)
//	copyto;<mode>;<src form>;<buffer cap>;<destination>;<value>
//
// mode raw prints values as they are (DumpB: an empty []byte prints "b" nil or not), mode
// canon in the normal form of coq/Spec/EmptySpec.v; the sharing verdicts are computed here
// natively from addresses and by mutation, and printed as classes only.

import (
	"encoding/hex"
	"math"
	"reflect"
	"sort"
	"strconv"
	"strings"

	"github.com/koykov/inspector"
)

// DumpB is Dump, except that an empty []byte prints "b" whether nil or not.
func DumpB(v reflect.Value) string {
	switch v.Kind() {
	case reflect.Ptr:
		if v.IsNil() {
			return "nil"
		}
		return "&" + DumpB(v.Elem())
	case reflect.Struct:
		parts := make([]string, v.NumField())
		for i := range parts {
			parts[i] = DumpB(v.Field(i))
		}
		return "{" + strings.Join(parts, ",") + "}"
	case reflect.Slice:
		if v.Type().Elem().Kind() == reflect.Uint8 {
			if v.Len() == 0 {
				return "b"
			}
			return "b" + hex.EncodeToString(v.Bytes())
		}
		if v.IsNil() {
			return "nil"
		}
		parts := make([]string, v.Len())
		for i := range parts {
			parts[i] = DumpB(v.Index(i))
		}
		return "[" + strings.Join(parts, ",") + "]"
	case reflect.Map:
		if v.IsNil() {
			return "nil"
		}
		return dumpMap(v, DumpB)
	}
	return Dump(v)
}

func dumpMap(v reflect.Value, f func(reflect.Value) string) string {
	type kv struct{ k, v string }
	var kvs []kv
	it := v.MapRange()
	for it.Next() {
		kvs = append(kvs, kv{f(it.Key()), f(it.Value())})
	}
	sort.SliceStable(kvs, func(i, j int) bool { return kvs[i].k < kvs[j].k })
	parts := make([]string, len(kvs))
	for i, e := range kvs {
		parts[i] = e.k + "=" + e.v
	}
	return "<" + strings.Join(parts, ",") + ">"
}

// IsEmp: every scalar zero, every string / byte slice / slice / map of length zero, through
// non-nil pointers (pz) or with no non-nil pointer at all (!pz).
func IsEmp(v reflect.Value, pz bool) bool {
	switch v.Kind() {
	case reflect.Bool:
		return !v.Bool()
	case reflect.Int, reflect.Int8, reflect.Int16, reflect.Int32, reflect.Int64:
		return v.Int() == 0
	case reflect.Uint, reflect.Uint8, reflect.Uint16, reflect.Uint32, reflect.Uint64:
		return v.Uint() == 0
	case reflect.Float32, reflect.Float64:
		return v.Float() == 0 && !math.Signbit(v.Float())
	case reflect.String, reflect.Slice, reflect.Map:
		return v.Len() == 0
	case reflect.Ptr:
		if v.IsNil() {
			return true
		}
		return pz && IsEmp(v.Elem(), pz)
	case reflect.Struct:
		for i := 0; i < v.NumField(); i++ {
			if !IsEmp(v.Field(i), pz) {
				return false
			}
		}
		return true
	}
	return false
}

// DumpCanon prints the normal form: empty collections as nil, and (pz) pointers to empty values as nil.
func DumpCanon(v reflect.Value, pz bool) string {
	f := func(x reflect.Value) string { return DumpCanon(x, pz) }
	switch v.Kind() {
	case reflect.Ptr:
		if v.IsNil() || (pz && IsEmp(v.Elem(), pz)) {
			return "nil"
		}
		return "&" + f(v.Elem())
	case reflect.Struct:
		parts := make([]string, v.NumField())
		for i := range parts {
			parts[i] = f(v.Field(i))
		}
		return "{" + strings.Join(parts, ",") + "}"
	case reflect.Slice:
		if v.Len() == 0 {
			return "nil"
		}
		if v.Type().Elem().Kind() == reflect.Uint8 {
			return "b" + hex.EncodeToString(v.Bytes())
		}
		parts := make([]string, v.Len())
		for i := range parts {
			parts[i] = f(v.Index(i))
		}
		return "[" + strings.Join(parts, ",") + "]"
	case reflect.Map:
		if v.Len() == 0 {
			return "nil"
		}
		return dumpMap(v, f)
	}
	return Dump(v)
}

func bit(b bool) string {
	if b {
		return "1"
	}
	return "0"
}

func newOf(t reflect.Type, text string) reflect.Value {
	pv := reflect.New(t)
	pv.Elem().Set(Build(t, text))
	return pv
}

func init() {
	ops["reset"] = func(ins inspector.Inspector, t reflect.Type, form string, args []string, value string) string {
		pv := newOf(t, value)
		if err := ins.Reset(pv.Interface()); err != nil {
			return "e=" + ErrName(err)
		}
		if args[0] == "raw" {
			return "e=nil;d=" + DumpB(pv.Elem())
		}
		return "e=nil;z=" + bit(IsEmp(pv.Elem(), true)) + ";c=" + DumpCanon(pv.Elem(), true)
	}

	ops["cycle"] = func(ins inspector.Inspector, t reflect.Type, form string, args []string, value string) string {
		mode := args[0]
		bcap, _ := strconv.Atoi(args[1])
		pd := newOf(t, args[2])
		buf := inspector.NewByteBuffer(bcap)
		var srcs []reflect.Value
		var before, dumps []string
		z := ""
		for _, st := range strings.Split(value, "|") {
			ps := newOf(t, st)
			srcs = append(srcs, ps)
			before = append(before, Dump(ps.Elem()))
			if err := ins.Reset(pd.Interface()); err != nil {
				return "e=reset-" + ErrName(err)
			}
			buf.Reset()
			z += bit(IsEmp(pd.Elem(), true))
			if err := ins.CopyTo(ps.Interface(), pd.Interface(), buf); err != nil {
				return "e=" + ErrName(err)
			}
			if mode == "raw" {
				dumps = append(dumps, DumpB(pd.Elem()))
			} else {
				dumps = append(dumps, DumpCanon(pd.Elem(), true))
			}
		}
		if mode == "raw" {
			return "e=nil;d=" + strings.Join(dumps, "|")
		}
		same := true
		for i, ps := range srcs {
			if Dump(ps.Elem()) != before[i] {
				same = false
			}
		}
		return "e=nil;z=" + z + ";c=" + strings.Join(dumps, "|") + ";same=" + bit(same)
	}
}

// ---------------------------------------------------------------- C06: sharing oracle

type memRange struct {
	lo, hi uintptr
	kind   string
}

// collect the mutable allocations reachable from v: pointer targets, slice backing arrays
// (capacity included), maps (by identity).
func collect(v reflect.Value, out *[]memRange) {
	switch v.Kind() {
	case reflect.Ptr:
		if v.IsNil() {
			return
		}
		if sz := v.Type().Elem().Size(); sz > 0 {
			*out = append(*out, memRange{v.Pointer(), v.Pointer() + sz, "ptr"})
		}
		collect(v.Elem(), out)
	case reflect.Struct:
		for i := 0; i < v.NumField(); i++ {
			collect(v.Field(i), out)
		}
	case reflect.Slice:
		if v.IsNil() {
			return
		}
		if sz := v.Type().Elem().Size() * uintptr(v.Cap()); sz > 0 {
			k := "slice"
			if v.Type().Elem().Kind() == reflect.Uint8 {
				k = "bytes"
			}
			*out = append(*out, memRange{v.Pointer(), v.Pointer() + sz, k})
		}
		if v.Type().Elem().Kind() != reflect.Uint8 {
			for i := 0; i < v.Len(); i++ {
				collect(v.Index(i), out)
			}
		}
	case reflect.Map:
		if v.IsNil() {
			return
		}
		*out = append(*out, memRange{v.Pointer(), v.Pointer() + 1, "map"})
		it := v.MapRange()
		for it.Next() {
			collect(it.Key(), out)
			collect(it.Value(), out)
		}
	}
}

// the kinds of allocations of b that intersect an allocation of a ("-" when none)
func shareClasses(a, b reflect.Value) string {
	var ra, rb []memRange
	collect(a, &ra)
	collect(b, &rb)
	seen := map[string]bool{}
	for _, y := range rb {
		for _, x := range ra {
			if x.lo < y.hi && y.lo < x.hi {
				seen[y.kind] = true
			}
		}
	}
	if len(seen) == 0 {
		return "-"
	}
	var ks []string
	for k := range seen {
		ks = append(ks, k)
	}
	sort.Strings(ks)
	return strings.Join(ks, "+")
}

// mutate every mutable location reachable from the addressable value v, in place
func mutate(v reflect.Value) {
	switch v.Kind() {
	case reflect.Bool:
		v.SetBool(!v.Bool())
	case reflect.Int, reflect.Int8, reflect.Int16, reflect.Int32, reflect.Int64:
		v.SetInt(v.Int() ^ 1)
	case reflect.Uint, reflect.Uint8, reflect.Uint16, reflect.Uint32, reflect.Uint64:
		v.SetUint(v.Uint() ^ 1)
	case reflect.Float32, reflect.Float64:
		v.SetFloat(-v.Float() - 1)
	case reflect.String:
		v.SetString(v.String() + "~")
	case reflect.Ptr:
		if !v.IsNil() {
			mutate(v.Elem())
		}
	case reflect.Struct:
		for i := 0; i < v.NumField(); i++ {
			mutate(v.Field(i))
		}
	case reflect.Slice:
		// every element up to the capacity, in place
		if v.IsNil() {
			return
		}
		full := v.Slice(0, v.Cap())
		for i := 0; i < v.Len(); i++ {
			mutate(full.Index(i))
		}
		for i := v.Len(); i < v.Cap(); i++ {
			if full.Index(i).Kind() == reflect.Uint8 {
				full.Index(i).SetUint(0xEE)
			}
		}
	case reflect.Map:
		if v.IsNil() {
			return
		}
		keys := v.MapKeys()
		for _, k := range keys {
			if k.Kind() == reflect.Ptr && !k.IsNil() {
				mutate(k.Elem())
			}
			nv := reflect.New(v.Type().Elem()).Elem()
			nv.Set(v.MapIndex(k))
			if nv.Kind() == reflect.Ptr || nv.Kind() == reflect.Slice || nv.Kind() == reflect.Map {
				mutate(nv) // through the reference: the entry itself stays
			} else {
				mutate(nv)
				v.SetMapIndex(k, nv)
			}
		}
		if len(keys) > 0 {
			v.SetMapIndex(keys[0], reflect.Value{}) // delete one entry
		}
	}
}

// scramble: every text reachable from the addressable value v gets other content of the SAME length (strings are
// replaced, byte slices overwritten in place); nothing else changes
func scramble(v reflect.Value) {
	switch v.Kind() {
	case reflect.String:
		v.SetString(strings.Repeat("#", len(v.String())))
	case reflect.Ptr:
		if !v.IsNil() {
			scramble(v.Elem())
		}
	case reflect.Struct:
		for i := 0; i < v.NumField(); i++ {
			scramble(v.Field(i))
		}
	case reflect.Slice:
		for i := 0; i < v.Len(); i++ {
			if v.Index(i).Kind() == reflect.Uint8 {
				v.Index(i).SetUint('#')
			} else {
				scramble(v.Index(i))
			}
		}
	case reflect.Map:
		for _, k := range v.MapKeys() {
			nv := reflect.New(v.Type().Elem()).Elem()
			nv.Set(v.MapIndex(k))
			scramble(nv)
			v.SetMapIndex(k, nv)
		}
	}
}

// laterCopies: what a Copy handed out must survive the later calls of the same method - two more Copy calls, on a value
// of the same shape and text LENGTHS but other text content (a buffer recycled between calls would fit it exactly)
func laterCopies(ins inspector.Inspector, t reflect.Type, form, value string) {
	defer func() { _ = recover() }()
	tw := newOf(t, value)
	scramble(tw.Elem())
	var a any = tw.Interface()
	if form == "v" {
		a = tw.Elem().Interface()
	}
	_, _ = ins.Copy(a)
	_, _ = ins.Copy(a)
}

// after Copy/CopyTo: structure, DeepEqual, source intact, sharing by address and by mutation
func judge(ins inspector.Inspector, srcArg any, src, cp reflect.Value, before string) string {
	deq := func() (r string) {
		defer func() {
			if recover() != nil {
				r = "P" // the generated DeepEqual panicked
			}
		}()
		return bit(ins.DeepEqual(srcArg, cp.Addr().Interface()))
	}()
	same := Dump(src) == before
	share := shareClasses(src, cp)
	c := DumpCanon(cp, false)
	// mutate the copy, re-read the source; then mutate the source, re-read the copy
	mutate(cp)
	ok := Dump(src) == before
	after := Dump(cp)
	mutate(src)
	ok = ok && Dump(cp) == after
	m := "ok"
	if !ok {
		m = "leak"
	}
	return "e=nil;c=" + c + ";deq=" + deq + ";same=" + bit(same) + ";share=" + share + ";mut=" + m
}

func init() {
	// copy;<mode>;<value>          form = v | p (how the source is passed)
	ops["copy"] = func(ins inspector.Inspector, t reflect.Type, form string, args []string, value string) string {
		ps := newOf(t, value)
		before := Dump(ps.Elem())
		var a any = ps.Interface()
		if form == "v" {
			a = ps.Elem().Interface()
		}
		r, err := ins.Copy(a)
		if err != nil {
			return "e=" + ErrName(err)
		}
		cp := reflect.ValueOf(r).Elem()
		laterCopies(ins, t, form, value)
		if args[0] == "raw" {
			return "e=nil;d=" + DumpB(cp)
		}
		return judge(ins, ps.Interface(), ps.Elem(), cp, before)
	}
	// copyto;<mode>;<buffer capacity, -1 = zero ByteBuffer>;<destination>;<value>
	ops["copyto"] = func(ins inspector.Inspector, t reflect.Type, form string, args []string, value string) string {
		ps := newOf(t, value)
		before := Dump(ps.Elem())
		var a any = ps.Interface()
		if form == "v" {
			a = ps.Elem().Interface()
		}
		bcap, _ := strconv.Atoi(args[1])
		buf := &inspector.ByteBuffer{}
		if bcap >= 0 {
			buf = inspector.NewByteBuffer(bcap)
		}
		pd := newOf(t, args[2])
		if err := ins.CopyTo(a, pd.Interface(), buf); err != nil {
			return "e=" + ErrName(err)
		}
		if args[0] == "raw" {
			grew := "0"
			if bcap > 0 && cap(buf.AcquireBytes()) != bcap {
				grew = "1"
			}
			return "e=nil;d=" + DumpB(pd.Elem()) + ";used=" + strconv.Itoa(len(buf.AcquireBytes())) + ";grew=" + grew
		}
		// second generation: the copy, whose bytes live in the buffer, copied again through the SAME buffer (roomy enough not
		// to move) must again get bytes of its own - a buffer that recognises its own bytes and hands them back shares them
		{
			big := inspector.NewByteBuffer(1 << 16)
			p1 := newOf(t, args[2])
			if ins.CopyTo(a, p1.Interface(), big) == nil {
				p2 := reflect.New(t)
				if ins.CopyTo(p1.Interface(), p2.Interface(), big) == nil {
					if sh := shareClasses(p1.Elem(), p2.Elem()); sh != "-" {
						return "e=nil;COPY-OF-COPY-SHARES:" + sh
					}
				}
			}
		}
		return judge(ins, ps.Interface(), ps.Elem(), pd.Elem(), before)
	}
}
