package emit

// op_set.go: the C03 ops.
//
//   set;<path>;<buf 0|1>;<src>       Set (buf=0) / SetWithBuffer with a ByteBuffer (buf=1) through the
//                                    argument form, then   e=<error>;obj=<dump of the whole object>
//   setframe;<path>;<buf>;<src>      the same call, then the frame condition decided natively (reflect):
//                                    frame=1 when every location off the path is what it was, containers and
//                                    entries on the path possibly created;  frame=0 otherwise
//
//   <src> = <gokind>/<v|p>/<payload>   gokind: bool int int8 .. uint64 float32 float64 string bytes
//           payload in the canonical scalar text (decimal, F+mpe, t/f, s<hex>, b<hex>)
//
// Maps are printed sorted by the whole "key=value" text (dumpS), so that maps with pointer keys,
// which can hold several entries with equal pointees, still have one canonical text.

import (
	"encoding/hex"
	"reflect"
	"sort"
	"strconv"
	"strings"
	"unsafe"

	"github.com/koykov/inspector"
)

func dumpS(v reflect.Value) string {
	if !v.IsValid() {
		return "none"
	}
	switch v.Kind() {
	case reflect.Ptr:
		if v.IsNil() {
			return "nil"
		}
		return "&" + dumpS(v.Elem())
	case reflect.Struct:
		parts := make([]string, v.NumField())
		for i := range parts {
			parts[i] = dumpS(v.Field(i))
		}
		return "{" + strings.Join(parts, ",") + "}"
	case reflect.Slice:
		if v.IsNil() {
			return "nil"
		}
		if v.Type().Elem().Kind() == reflect.Uint8 {
			return "b" + hex.EncodeToString(v.Bytes())
		}
		parts := make([]string, v.Len())
		for i := range parts {
			parts[i] = dumpS(v.Index(i))
		}
		return "[" + strings.Join(parts, ",") + "]"
	case reflect.Map:
		if v.IsNil() {
			return "nil"
		}
		return "<" + strings.Join(entriesS(v, nil), ",") + ">"
	}
	return Dump(v)
}

// sorted "k=v" texts of the entries accepted by keep (nil = all)
func entriesS(m reflect.Value, keep func(k reflect.Value) bool) []string {
	var parts []string
	it := m.MapRange()
	for it.Next() {
		if keep == nil || keep(it.Key()) {
			parts = append(parts, dumpS(it.Key())+"="+dumpS(it.Value()))
		}
	}
	sort.Strings(parts)
	return parts
}

var srcKinds = map[string]reflect.Type{
	"bool": reflect.TypeOf(false), "int": reflect.TypeOf(int(0)), "int8": reflect.TypeOf(int8(0)),
	"int16": reflect.TypeOf(int16(0)), "int32": reflect.TypeOf(int32(0)), "int64": reflect.TypeOf(int64(0)),
	"uint": reflect.TypeOf(uint(0)), "uint8": reflect.TypeOf(uint8(0)), "uint16": reflect.TypeOf(uint16(0)),
	"uint32": reflect.TypeOf(uint32(0)), "uint64": reflect.TypeOf(uint64(0)),
	"float32": reflect.TypeOf(float32(0)), "float64": reflect.TypeOf(float64(0)),
	"string": reflect.TypeOf(""), "bytes": reflect.TypeOf([]byte(nil)),
}

// Source builds the assigned value.
func Source(text string) any {
	f := strings.SplitN(text, "/", 3)
	t, ok := srcKinds[f[0]]
	if !ok {
		panic("bad source kind " + f[0])
	}
	v := Build(t, f[2])
	if f[1] == "p" {
		pv := reflect.New(t)
		pv.Elem().Set(v)
		return pv.Interface()
	}
	return v.Interface()
}

func callSet(ins inspector.Inspector, a any, path []string, buffered bool, src any) error {
	if buffered {
		var bb inspector.ByteBuffer
		return ins.SetWithBuffer(a, src, &bb, path...)
	}
	return ins.Set(a, src, path...)
}

// the key a path segment names for a map key type (the conversion snippets of the generator)
func segKey(kt reflect.Type, seg string) (reflect.Value, bool) {
	k := reflect.New(kt).Elem()
	switch kt.Kind() {
	case reflect.String:
		k.SetString(seg)
	case reflect.Bool:
		b, err := strconv.ParseBool(seg)
		if err != nil {
			return k, false
		}
		k.SetBool(b)
	case reflect.Int, reflect.Int8, reflect.Int16, reflect.Int32, reflect.Int64:
		n, err := strconv.ParseInt(seg, 0, 0)
		if err != nil {
			return k, false
		}
		k.Set(reflect.ValueOf(n).Convert(kt))
	case reflect.Uint, reflect.Uint8, reflect.Uint16, reflect.Uint32, reflect.Uint64:
		n, err := strconv.ParseUint(seg, 0, 0)
		if err != nil {
			return k, false
		}
		k.Set(reflect.ValueOf(n).Convert(kt))
	case reflect.Float32, reflect.Float64:
		n, err := strconv.ParseFloat(seg, 0)
		if err != nil {
			return k, false
		}
		k.Set(reflect.ValueOf(n).Convert(kt))
	default:
		return k, false
	}
	return k, true
}

func sameStrings(a, b []string) bool {
	if len(a) != len(b) {
		return false
	}
	for i := range a {
		if a[i] != b[i] {
			return false
		}
	}
	return true
}

// offPath: is `after` what `before` was at every location off the path?  On the path: a nil pointer,
// map or slice may have been created, an absent map entry may have appeared (everything off the
// path inside what was created must be zero); the element the path ends at is free.
func offPath(t reflect.Type, path []string, before, after reflect.Value) bool {
	if len(path) == 0 {
		return true
	}
	seg, rest := path[0], path[1:]
	switch t.Kind() {
	case reflect.Ptr:
		if after.IsNil() {
			return before.IsNil()
		}
		if before.IsNil() {
			return offPath(t.Elem(), path, reflect.Zero(t.Elem()), after.Elem())
		}
		return offPath(t.Elem(), path, before.Elem(), after.Elem())
	case reflect.Struct:
		idx := -1
		for i := 0; i < t.NumField(); i++ {
			if t.Field(i).Name == seg && idx < 0 {
				idx = i
			}
		}
		for i := 0; i < t.NumField(); i++ {
			if i != idx && dumpS(before.Field(i)) != dumpS(after.Field(i)) {
				return false
			}
		}
		if idx < 0 {
			return true
		}
		return offPath(t.Field(idx).Type, rest, before.Field(idx), after.Field(idx))
	case reflect.Map:
		if after.IsNil() && !before.IsNil() {
			return false
		}
		kt := t.Key()
		ptrKey := kt.Kind() == reflect.Ptr
		base := kt
		if ptrKey {
			base = kt.Elem()
		}
		k, ok := segKey(base, seg)
		if !ok {
			return sameStrings(entriesS(before, nil), entriesS(after, nil))
		}
		// Go's == on keys; a NaN key names every NaN entry (none is ever found again)
		same := func(a reflect.Value) bool {
			if a.Kind() == reflect.Float32 || a.Kind() == reflect.Float64 {
				return a.Float() == k.Float() || (a.Float() != a.Float() && k.Float() != k.Float())
			}
			return a.Interface() == k.Interface()
		}
		other := func(x reflect.Value) bool {
			if ptrKey {
				return x.IsNil() || !same(x.Elem())
			}
			return !same(x)
		}
		if !sameStrings(entriesS(before, other), entriesS(after, other)) {
			return false
		}
		if ptrKey {
			return true // entries whose pointee is the named key are on the path
		}
		var b, a reflect.Value
		if !before.IsNil() {
			b = before.MapIndex(k)
		}
		a = after.MapIndex(k)
		switch {
		case !a.IsValid():
			return !b.IsValid()
		case !b.IsValid():
			return offPath(t.Elem(), rest, reflect.Zero(t.Elem()), a)
		}
		return offPath(t.Elem(), rest, b, a)
	case reflect.Slice:
		if t.Elem().Kind() == reflect.Uint8 {
			return true
		}
		if after.IsNil() && !before.IsNil() {
			return false
		}
		if before.Len() != after.Len() {
			return false
		}
		n, err := strconv.ParseInt(seg, 0, 0)
		idx := -1
		if err == nil && n >= 0 && n < int64(before.Len()) {
			idx = int(n)
		}
		for i := 0; i < before.Len(); i++ {
			if i != idx && dumpS(before.Index(i)) != dumpS(after.Index(i)) {
				return false
			}
		}
		if idx < 0 {
			return true
		}
		return offPath(t.Elem(), rest, before.Index(idx), after.Index(idx))
	}
	return true
}

// storage witnesses: every []byte (over its whole capacity) and every string reachable in the object before the call, kept
// as a second holder of the same memory together with a private copy of the content.  A Set must not write into memory that
// was referenced before it ran - bytes and strings stored into an object may be shared with whoever supplied them (a
// []byte -> []byte Set stores the source slice itself, a string -> []byte Set a view of the string).
type storageWitness struct {
	view []byte
	was  string
}

func collectStorage(v reflect.Value, out *[]storageWitness, depth int) {
	if !v.IsValid() || depth > 12 {
		return
	}
	switch v.Kind() {
	case reflect.Ptr, reflect.Interface:
		if !v.IsNil() {
			collectStorage(v.Elem(), out, depth+1)
		}
	case reflect.Struct:
		for i := 0; i < v.NumField(); i++ {
			collectStorage(v.Field(i), out, depth+1)
		}
	case reflect.Slice:
		if v.IsNil() {
			return
		}
		if v.Type().Elem().Kind() == reflect.Uint8 {
			if v.Cap() > 0 {
				b := v.Bytes()
				b = b[:cap(b)]
				*out = append(*out, storageWitness{view: b, was: string(b)})
			}
			return
		}
		for i := 0; i < v.Len(); i++ {
			collectStorage(v.Index(i), out, depth+1)
		}
	case reflect.Map:
		it := v.MapRange()
		for it.Next() {
			collectStorage(it.Key(), out, depth+1)
			collectStorage(it.Value(), out, depth+1)
		}
	case reflect.String:
		if s := v.String(); len(s) > 0 {
			*out = append(*out, storageWitness{view: unsafe.Slice(unsafe.StringData(s), len(s)), was: strings.Clone(s)})
		}
	}
}

// frameWitnesses: the storage witnesses of the object behind a for a Set along path.
// A path that goes INTO a slice of uint8 (reflection cannot tell []uint8 from []byte) addresses one of its
// elements: writing that element in place is the operation itself, not a write into foreign storage.
func frameWitnesses(a any, path []string) []storageWitness {
	var wit []storageWitness
	collectStorage(reflect.ValueOf(a), &wit, 0)
	for k := 0; k < len(path); k++ {
		if el, ok := NavNative(reflect.ValueOf(a), path[:k]); ok && el.Kind() == reflect.Slice &&
			el.Type().Elem().Kind() == reflect.Uint8 && el.Cap() > 0 {
			base := el.Slice(0, el.Cap()).Pointer()
			kept := wit[:0]
			for _, w := range wit {
				if uintptr(unsafe.Pointer(unsafe.SliceData(w.view))) != base {
					kept = append(kept, w)
				}
			}
			wit = kept
		}
	}
	return wit
}

// the first witness whose memory no longer holds what it held ("" when all do)
func writtenWitness(wit []storageWitness) string {
	for _, w := range wit {
		if string(w.view) != w.was {
			return "storage-written(" + hex.EncodeToString([]byte(w.was)) + "->" + hex.EncodeToString(w.view) + ")"
		}
	}
	return ""
}

func init() {
	setop := func(frame bool) opfn {
		return func(ins inspector.Inspector, t reflect.Type, form string, args []string, value string) string {
			path := Path(args[0])
			buffered := args[1] == "1"
			src := Source(args[2])
			a, _ := Arg(t, form, value)
			var wit []storageWitness
			if frame {
				wit = frameWitnesses(a, path)
			}
			err := callSet(ins, a, path, buffered, src)
			after := reflect.ValueOf(a)
			for after.Kind() == reflect.Ptr && after.Type() != t {
				after = after.Elem()
			}
			if !frame {
				return "e=" + ErrName(err) + ";obj=" + dumpS(after)
			}
			before := Build(t, value)
			if w := writtenWitness(wit); w != "" {
				return "frame=0:" + w
			}
			if offPath(t, path, before, after) {
				return "frame=1"
			}
			return "frame=0"
		}
	}
	ops["set"] = setop(false)
	ops["setframe"] = setop(true)
}
