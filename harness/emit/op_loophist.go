package emit

// op_loophist.go: HISTORIES of Loop calls that share ONE caller-owned key buffer (C09: the demand of the property -
// every element exactly once, a key text that names the element handed over with it, Break and Continue honoured -
// holds for EVERY Loop a caller makes, whatever the key buffer it hands over held before and whatever Loop used it
// before).
//
//	lhist;<buf0>;<step>|<step>|...     ONE object is built from the value text and handed over by pointer; ONE key
//	                                   buffer is handed to every step.
//	   buf0  n   the buffer starts as a nil slice
//	         e   empty, capacity 8
//	         f   holds 24 bytes of text (len 24): a rendering that does not start from the empty prefix shows it
//	   step  loop;<canon>;<wants>;<ctls>;<path>                      Loop over the object
//	         oloop;<canon>;<wants>;<ctls>;<path>                     Loop over a second object of the same type and value
//	         xloop;<Type2>;<value2>;<canon>;<wants>;<ctls>;<path>    Loop over a partner object of another registered type
//	   (the steps and the objects are those of op_seq.go)
//	observation   <step>#<step>#...    a step = <observation of the op loop>;look=<0|1>
//	   look: every key text the iterator was handed in that call, looked up natively (reflection) in the collection
//	   the path denotes at the moment its element was handed over, is the key (the index) of an element of that
//	   collection, and that element is the one handed over.  Both columns expect 1.
//
// Map keys and strings of the objects are run-time (heap) strings (value.go), so a store into one is an observable
// change of the object, not a fault in read-only memory.

import (
	"math"
	"reflect"
	"strconv"
	"strings"

	"github.com/koykov/inspector"
)

// keyDenotes: the key text names an element of the collection and that element dumps (pointers followed) as want
func keyDenotes(coll reflect.Value, text, want string) bool {
	if !coll.IsValid() {
		return false
	}
	switch coll.Kind() {
	case reflect.Slice:
		i, err := strconv.Atoi(text)
		if err != nil || i < 0 || i >= coll.Len() || strconv.Itoa(i) != text {
			return false
		}
		return DumpDeref(coll.Index(i)) == want
	case reflect.Map:
		kt := coll.Type().Key()
		if kt.Kind() == reflect.Ptr {
			// no text names a pointer: the key whose pointee the text names
			pk, ok := keyOf(kt.Elem(), text)
			if !ok {
				return false
			}
			it := coll.MapRange()
			for it.Next() {
				k := it.Key()
				if k.IsNil() || k.Elem().Interface() != pk.Interface() {
					continue
				}
				if e := coll.MapIndex(k); e.IsValid() && DumpDeref(e) == want {
					return true
				}
			}
			return false
		}
		k, ok := keyOf(kt, text)
		if !ok {
			return false
		}
		if (k.Kind() == reflect.Float32 || k.Kind() == reflect.Float64) && math.IsNaN(k.Float()) {
			return true // a NaN key is never found again: nothing to look up
		}
		e := coll.MapIndex(k)
		return e.IsValid() && DumpDeref(e) == want
	}
	return false
}

func (h *seqHist) lookStep(args []string) (obs string) {
	defer func() {
		if r := recover(); r != nil {
			obs = "PANIC:" + panicKind(r)
		}
	}()
	var o *seqObj
	var rest []string
	if len(args) > 0 {
		switch args[0] {
		case "loop":
			o, rest = h.main, args[1:]
		case "oloop":
			o, rest = h.second, args[1:]
		case "xloop":
			if len(args) >= 3 {
				o, rest = h.others[args[1]+";"+args[2]], args[3:]
			}
		}
	}
	if o == nil || len(rest) < 4 {
		return "NOOP"
	}
	s, ok := loopObsLook(o.ins, o.arg, &h.buf, false, rest, true)
	return s + ";look=" + bit(ok)
}

func init() {
	ops["lhist"] = func(ins inspector.Inspector, t reflect.Type, form string, args []string, value string) string {
		if len(args) < 2 {
			return "NOOP"
		}
		steps := splitInner(args[1:])
		h := newSeqHist(ins, t, form, value)
		switch args[0] {
		case "n":
			h.buf = nil
		case "f":
			h.buf = []byte(strings.Repeat("zy", 12))
		}
		h.prepare(steps)
		obs := make([]string, len(steps))
		for i, s := range steps {
			obs[i] = h.lookStep(s)
		}
		return strings.Join(obs, "#")
	}
}
