package emit

// op_allocs.go - C15: heap allocations per call, measured with testing.AllocsPerRun on
// populated values along paths made of struct fields, non-nil pointers and struct-slice
// indices.   input: <Type>;<forms>;allocs;<leaf|read|slice>;<path>;<operand>;<value>
//
// <forms> is one argument form or several joined by '+' (p = *T, pp = **T, v = T by value,
// boxed once outside the measured call): every measurement is repeated with the object
// handed in in each of the forms; with several forms the blocks are printed as
// "<form>:<counts>" joined by '|'.  kind leaf measures GetTo, Compare, Length, Capacity,
// DeepEqual and SetWithBuffer, kind read the same without SetWithBuffer, kind slice Loop.

import (
	"reflect"
	"strconv"
	"strings"
	"testing"

	"github.com/koykov/inspector"
)

type countIter struct{ n int }

func (i *countIter) RequireKey() bool                { return true }
func (i *countIter) SetKey(any, inspector.Inspector) {}
func (i *countIter) SetVal(any, inspector.Inspector) {}
func (i *countIter) Iterate() inspector.LoopCtl      { i.n++; return inspector.LoopCtlNone }

// formArg builds one populated object and returns it in the requested argument form:
// the *T itself, a **T to it, or the T it points to boxed by value.  prep may modify the
// object (through the *T) before the forms are derived.
func formArg(t reflect.Type, form, value string, prep func(pv reflect.Value)) any {
	a, _ := Arg(t, "p", value)
	pv := reflect.ValueOf(a)
	if prep != nil {
		prep(pv)
	}
	switch form {
	case "p":
		return a
	case "pp":
		ppv := reflect.New(pv.Type())
		ppv.Elem().Set(pv)
		return ppv.Interface()
	case "v":
		return pv.Elem().Interface()
	}
	panic("bad form " + form)
}

func allocsIn(ins inspector.Inspector, t reflect.Type, form, kind string, path []string, operand, value string) string {
	n := func(f func()) string { return strconv.Itoa(int(testing.AllocsPerRun(10, f))) }
	if kind == "slice" {
		// grow the addressed slice to 150 elements (repeating its own elements): long loops must not allocate either
		a := formArg(t, form, value, func(pv reflect.Value) {
			if sl, ok := NavNative(pv, path); ok && sl.Kind() == reflect.Slice && sl.CanSet() && sl.Len() > 0 {
				big := reflect.MakeSlice(sl.Type(), 150, 150)
				for i := 0; i < 150; i++ {
					big.Index(i).Set(sl.Index(i % sl.Len()))
				}
				sl.Set(big)
			}
		})
		it := &countIter{}
		buf := make([]byte, 0, 64)
		return "loop=" + n(func() { _ = ins.Loop(a, it, &buf, path...) })
	}
	a := formArg(t, form, value, nil)
	b := formArg(t, form, value, nil)
	var out any
	var res bool
	var ln int
	s := "getto=" + n(func() { _ = ins.GetTo(a, &out, path...) })
	s += ";cmp=" + n(func() { _ = ins.Compare(a, inspector.OpEq, operand, &res, path...) })
	s += ";len=" + n(func() { _ = ins.Length(a, &ln, path...) })
	s += ";cap=" + n(func() { _ = ins.Capacity(a, &ln, path...) })
	s += ";deq=" + n(func() { _ = ins.DeepEqual(a, b) })
	if kind == "read" {
		return s
	}
	// SetWithBuffer of the element's own value (boxed once, outside the measurement) into a pre-sized buffer
	if leaf, ok := NavNative(reflect.ValueOf(b), path); ok {
		boxed := leaf.Interface()
		bb := inspector.NewByteBuffer(4096)
		s += ";set=" + n(func() { bb.Reset(); _ = ins.SetWithBuffer(a, boxed, bb, path...) })
	} else {
		s += ";set=?"
	}
	return s
}

func init() {
	ops["allocs"] = func(ins inspector.Inspector, t reflect.Type, form string, args []string, value string) string {
		kind, path, operand := args[0], Path(args[1]), string(Path(args[2])[0])
		forms := strings.Split(form, "+")
		if len(forms) == 1 {
			return allocsIn(ins, t, form, kind, path, operand, value)
		}
		out := make([]string, len(forms))
		for i, f := range forms {
			out[i] = f + ":" + allocsIn(ins, t, f, kind, path, operand, value)
		}
		return strings.Join(out, "|")
	}
}
