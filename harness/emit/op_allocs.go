package emit

// op_allocs.go - C15: heap allocations per call, measured with testing.AllocsPerRun on
// populated values along paths made of struct fields, non-nil pointers and struct-slice
// indices.   input: <Type>;p;allocs;<leaf|slice>;<path>;<operand>;<value>

import (
	"reflect"
	"strconv"
	"testing"

	"github.com/koykov/inspector"
)

type countIter struct{ n int }

func (i *countIter) RequireKey() bool                   { return true }
func (i *countIter) SetKey(any, inspector.Inspector)    {}
func (i *countIter) SetVal(any, inspector.Inspector)    {}
func (i *countIter) Iterate() inspector.LoopCtl         { i.n++; return inspector.LoopCtlNone }

func init() {
	ops["allocs"] = func(ins inspector.Inspector, t reflect.Type, form string, args []string, value string) string {
		kind, path, operand := args[0], Path(args[1]), string(Path(args[2])[0])
		a, _ := Arg(t, "p", value)
		b, _ := Arg(t, "p", value)
		n := func(f func()) string { return strconv.Itoa(int(testing.AllocsPerRun(10, f))) }
		if kind == "slice" {
			// grow the addressed slice to 150 elements (repeating its own elements): long loops must not allocate either
			if sl, ok := NavNative(reflect.ValueOf(a), path); ok && sl.Kind() == reflect.Slice && sl.CanSet() && sl.Len() > 0 {
				big := reflect.MakeSlice(sl.Type(), 150, 150)
				for i := 0; i < 150; i++ {
					big.Index(i).Set(sl.Index(i % sl.Len()))
				}
				sl.Set(big)
			}
			it := &countIter{}
			buf := make([]byte, 0, 64)
			return "loop=" + n(func() { _ = ins.Loop(a, it, &buf, path...) })
		}
		var out any
		var res bool
		var ln int
		s := "getto=" + n(func() { _ = ins.GetTo(a, &out, path...) })
		s += ";cmp=" + n(func() { _ = ins.Compare(a, inspector.OpEq, operand, &res, path...) })
		s += ";len=" + n(func() { _ = ins.Length(a, &ln, path...) })
		s += ";cap=" + n(func() { _ = ins.Capacity(a, &ln, path...) })
		s += ";deq=" + n(func() { _ = ins.DeepEqual(a, b) })
		// SetWithBuffer of the element's own value (boxed once, outside the measurement) into a pre-sized buffer
		if leaf, ok := NavNative(reflect.ValueOf(b), path); ok {
			boxed := leaf.Interface()
			bb := inspector.NewByteBuffer(4096)
			s += ";set=" + n(func() { bb.Reset(); _ = ins.SetWithBuffer(a, boxed, bb, path...) })
		} else {
			s += ";set=?"
		}
		return s
	}
}
