package emit

// run.go: the case runner for generated inspectors.
//
// input field of a case:   <type>;<form>;<op>;<op args ...>;<value>
//   form   v | p | pp | np (typed nil *T) | npp (**T to a nil *T) | nilpp (nil **T) | nil | foreign
//   path   segments in hex joined by '.', '-' for the empty path

import (
	"bufio"
	"encoding/hex"
	"errors"
	"fmt"
	"os"
	"reflect"
	"strconv"
	"strings"

	"github.com/koykov/inspector"
)

var types = map[string]reflect.Type{}

// Register makes a generated type known to the runner.
func Register(name string, t reflect.Type) { types[name] = t }

type opfn func(ins inspector.Inspector, t reflect.Type, form string, args []string, value string) string

var ops = map[string]opfn{}

type foreign struct{ X int }

// Arg builds the interface value handed to the inspector for a value text and a form.
// It returns the argument and a function dumping the (possibly modified) value afterwards.
func Arg(t reflect.Type, form, value string) (any, func() string) {
	switch form {
	case "nil":
		return nil, func() string { return "nil" }
	case "foreign":
		f := &foreign{X: 7}
		return f, func() string { return strconv.Itoa(f.X) }
	case "np":
		return reflect.Zero(reflect.PtrTo(t)).Interface(), func() string { return "nil" }
	case "npp":
		pp := reflect.New(reflect.PtrTo(t))
		return pp.Interface(), func() string { return Dump(pp.Elem()) }
	case "nilpp":
		return reflect.Zero(reflect.PtrTo(reflect.PtrTo(t))).Interface(), func() string { return "nil" }
	}
	v := Build(t, value)
	pv := reflect.New(t)
	pv.Elem().Set(v)
	switch form {
	case "v":
		return pv.Elem().Interface(), func() string { return Dump(pv.Elem()) }
	case "p":
		return pv.Interface(), func() string { return Dump(pv.Elem()) }
	case "pp":
		ppv := reflect.New(pv.Type())
		ppv.Elem().Set(pv)
		return ppv.Interface(), func() string { return Dump(pv.Elem()) }
	}
	panic("bad form " + form)
}

func Path(s string) []string {
	if s == "-" {
		return nil
	}
	parts := strings.Split(s, ".")
	out := make([]string, len(parts))
	for i, p := range parts {
		b, err := hex.DecodeString(p)
		if err != nil {
			panic(err)
		}
		out[i] = string(b)
	}
	return out
}

func ErrName(err error) string {
	switch {
	case err == nil:
		return "nil"
	case errors.Is(err, inspector.ErrUnsupportedType):
		return "unsupported"
	case errors.Is(err, inspector.ErrMustPointerType):
		return "mustpointer"
	}
	var ne *strconv.NumError
	if errors.As(err, &ne) {
		return "parse"
	}
	return "other"
}

func panicKind(r any) string {
	s := fmt.Sprint(r)
	switch {
	case strings.Contains(s, "nil pointer dereference"):
		return "nilderef"
	case strings.Contains(s, "index out of range"), strings.Contains(s, "slice bounds out of range"):
		return "index"
	case strings.Contains(s, "assignment to entry in nil map"):
		return "nilmap"
	case strings.Contains(s, "interface conversion"):
		return "typeassert"
	}
	return "other(" + s + ")"
}

func runCase(input string) (obs string) {
	defer func() {
		if r := recover(); r != nil {
			obs = "PANIC:" + panicKind(r)
		}
	}()
	f := strings.Split(input, ";")
	t, ok := types[f[0]]
	if !ok {
		return "NOTYPE"
	}
	ins, err := inspector.GetInspector(f[0])
	if err != nil {
		return "NOINSPECTOR"
	}
	op, ok := ops[f[2]]
	if !ok {
		return "NOOP"
	}
	return op(ins, t, f[1], f[3:len(f)-1], f[len(f)-1])
}

// Main reads cases from stdin and prints observations.
func Main() {
	in := bufio.NewReaderSize(os.Stdin, 1<<20)
	out := bufio.NewWriterSize(os.Stdout, 1<<20)
	defer out.Flush()
	for {
		line, err := in.ReadString('\n')
		line = strings.TrimRight(line, "\n")
		if f := strings.Split(line, "\t"); len(f) >= 3 {
			fmt.Fprintf(out, "%s\t%s\n", f[0], runCase(f[2]))
		}
		if err != nil {
			break
		}
	}
}

func init() {
	// len;<path> and cap;<path>: Length / Capacity with a sentinel in *result
	lc := func(capacity bool) opfn {
		return func(ins inspector.Inspector, t reflect.Type, form string, args []string, value string) string {
			a, after := Arg(t, form, value)
			before := after()
			res := 77
			var err error
			if capacity {
				err = ins.Capacity(a, &res, Path(args[0])...)
			} else {
				err = ins.Length(a, &res, Path(args[0])...)
			}
			same := "1"
			if after() != before {
				same = "0"
			}
			if err != nil {
				return "e=" + ErrName(err) + ";same=" + same
			}
			return "r=" + strconv.Itoa(res) + ";same=" + same
		}
	}
	ops["len"] = lc(false)
	ops["cap"] = lc(true)
}

func init() {
	// meta: the inspector fetched from the registry under the type's name reports that name
	ops["meta"] = func(ins inspector.Inspector, t reflect.Type, form string, args []string, value string) string {
		return "name=" + ins.TypeName()
	}
}
