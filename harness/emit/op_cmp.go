package emit

// op_cmp.go: the C04 op.
//
//	cmp;<op number>;<right operand, hex, '-' when empty>;<path>
//
// Compare is run twice on freshly built arguments, with *result preset to false and to true,
// so that "left untouched" is observable:  e=nil;r=<after false><after true>  or  e=<error name>.

import (
	"encoding/hex"
	"reflect"
	"strconv"

	"github.com/koykov/inspector"
)

func init() {
	ops["cmp"] = func(ins inspector.Inspector, t reflect.Type, form string, args []string, value string) string {
		opn, err := strconv.Atoi(args[0])
		if err != nil {
			panic(err)
		}
		right := ""
		if args[1] != "-" {
			b, err := hex.DecodeString(args[1])
			if err != nil {
				panic(err)
			}
			right = string(b)
		}
		path := Path(args[2])
		run := func(preset bool) (bool, error) {
			a, _ := Arg(t, form, value)
			res := preset
			err := ins.Compare(a, inspector.Op(opn), right, &res, path...)
			return res, err
		}
		r1, e1 := run(false)
		r2, e2 := run(true)
		if e1 != nil || e2 != nil {
			n1, n2 := ErrName(e1), ErrName(e2)
			if n1 == n2 {
				return "e=" + n1
			}
			return "e=" + n1 + "/" + n2
		}
		b := func(x bool) string {
			if x {
				return "t"
			}
			return "f"
		}
		return "e=nil;r=" + b(r1) + b(r2)
	}
}
