package emit

// op_get.go: Get / GetTo of generated inspectors (C01, aliasing clause of C15).
//
//   get;<path>     Get(src, path...)
//   getto;<path>   GetTo(src, &buf, path...) with a sentinel in buf ("same" = still there)
//
// observation:  e=<err>                          when an error is returned
//               e=nil;v=<what the returned any finally denotes>;live=<0|1>
// v: DumpDeref of the result (none = nothing stored, nil = a nil pointer).
// live: 1 when the object the result finally denotes IS the object reached by navigating
// the argument natively (reflection) along the path - same address, same type - so that
// a write through the reference is visible in the object.

import (
	"reflect"
	"strconv"
	"strings"

	"github.com/koykov/inspector"
)

type getSentinel struct{ s string }

// keyOf parses a path segment as a map key of type kt the way Go source would spell it.
func keyOf(kt reflect.Type, seg string) (reflect.Value, bool) {
	k := reflect.New(kt).Elem()
	switch kt.Kind() {
	case reflect.String:
		k.SetString(seg)
	case reflect.Bool:
		b, err := strconv.ParseBool(seg)
		if err != nil {
			return k, false
		}
		k.SetBool(b)
	case reflect.Int, reflect.Int8, reflect.Int16, reflect.Int32, reflect.Int64:
		n, err := strconv.ParseInt(seg, 0, 0)
		if err != nil {
			return k, false
		}
		k.SetInt(n)
	case reflect.Uint, reflect.Uint8, reflect.Uint16, reflect.Uint32, reflect.Uint64:
		n, err := strconv.ParseUint(seg, 0, 0)
		if err != nil {
			return k, false
		}
		k.SetUint(n)
	case reflect.Float32, reflect.Float64:
		f, err := strconv.ParseFloat(seg, 64)
		if err != nil {
			return k, false
		}
		k.SetFloat(f)
	default:
		return k, false // pointer keys cannot be named by a text
	}
	return k, true
}

// NavNative navigates a value along a path with reflection: struct field by name, map entry
// by parsed key, slice element by parsed index, through non-nil pointers; then follows the
// element's own pointers.  ok = the path resolves to a non-nil object.
func NavNative(cur reflect.Value, path []string) (reflect.Value, bool) {
	for _, seg := range path {
		for cur.Kind() == reflect.Ptr {
			if cur.IsNil() {
				return cur, false
			}
			cur = cur.Elem()
		}
		switch cur.Kind() {
		case reflect.Struct:
			f := cur.FieldByName(seg)
			if !f.IsValid() {
				return cur, false
			}
			cur = f
		case reflect.Map:
			k, ok := keyOf(cur.Type().Key(), seg)
			if !ok {
				return cur, false
			}
			e := cur.MapIndex(k)
			if !e.IsValid() {
				return cur, false
			}
			cur = e
		case reflect.Slice:
			if cur.Type().Elem().Kind() == reflect.Uint8 {
				return cur, false
			}
			i, err := strconv.ParseInt(seg, 0, 0)
			if err != nil || i < 0 || i >= int64(cur.Len()) {
				return cur, false
			}
			cur = cur.Index(int(i))
		default:
			return cur, false
		}
	}
	for cur.Kind() == reflect.Ptr {
		if cur.IsNil() {
			return cur, false
		}
		cur = cur.Elem()
	}
	return cur, true
}

func liveBit(arg any, path []string, got any) string {
	rv := reflect.ValueOf(got)
	for rv.IsValid() && (rv.Kind() == reflect.Ptr || rv.Kind() == reflect.Interface) {
		if rv.IsNil() {
			return "0"
		}
		rv = rv.Elem()
	}
	if !rv.IsValid() || !rv.CanAddr() {
		return "0"
	}
	el, ok := NavNative(reflect.ValueOf(arg), path)
	if !ok || !el.CanAddr() {
		return "0"
	}
	if el.Type() == rv.Type() && el.UnsafeAddr() == rv.UnsafeAddr() {
		return "1"
	}
	return "0"
}

// getObs runs one Get / GetTo (a sentinel in the buffer) on the argument a and prints the observation of the ops below
func getObs(ins inspector.Inspector, a any, to bool, path []string) string {
	var got any
	var err error
	if to {
		sent := &getSentinel{"sentinel"}
		var buf any = sent
		err = ins.GetTo(a, &buf, path...)
		if err != nil {
			return "e=" + ErrName(err)
		}
		if p, ok := buf.(*getSentinel); ok && p == sent {
			return "e=nil;v=same;live=0"
		}
		got = buf
	} else {
		got, err = ins.Get(a, path...)
		if err != nil {
			return "e=" + ErrName(err)
		}
	}
	return "e=nil;v=" + DumpDeref(reflect.ValueOf(got)) + ";live=" + liveBit(a, path, got)
}

func init() {
	mk := func(to bool) opfn {
		return func(ins inspector.Inspector, t reflect.Type, form string, args []string, value string) string {
			a, _ := Arg(t, form, value)
			path := Path(args[0])
			obs := getObs(ins, a, to, path)
			if !strings.HasPrefix(obs, "e=nil;v=") || obs == "e=nil;v=same;live=0" {
				return obs
			}
			if to && t.Kind() == reflect.Struct && form == "p" {
				// a caller may reuse one buffer for consecutive GetTo calls: warm the buffer up with a reference to each
				// top-level field, then repeat the call - the answer must be the same and the object untouched
				for i := 0; i < t.NumField(); i++ {
					a2, after2 := Arg(t, form, value)
					before := after2()
					var buf any
					if ins.GetTo(a2, &buf, t.Field(i).Name) != nil {
						continue
					}
					if err2 := ins.GetTo(a2, &buf, path...); err2 != nil {
						continue
					}
					obs2 := "e=nil;v=" + DumpDeref(reflect.ValueOf(buf)) + ";live=" + liveBit(a2, path, buf)
					if after2() != before {
						return obs + ";REUSED-BUFFER:object-changed-after-" + t.Field(i).Name
					}
					if obs2 != obs {
						return obs + ";REUSED-BUFFER:answer-" + obs2
					}
				}
			}
			return obs
		}
	}
	ops["get"] = mk(false)
	ops["getto"] = mk(true)
}
