(* Print-only driver shared by all extracted case generators:
     modeldrv <tier:int> <seed:int>
   calls Gen.cases and prints one case per line.  Nothing is computed here. *)
let string_of_chars (l : char list) : string =
  let b = Buffer.create 256 in List.iter (Buffer.add_char b) l; Buffer.contents b

let rec pos_of_int (n : int) : Gen.positive =
  if n = 1 then Gen.XH
  else if n land 1 = 0 then Gen.XO (pos_of_int (n lsr 1))
  else Gen.XI (pos_of_int (n lsr 1))

let z_of_int (n : int) : Gen.z =
  if n = 0 then Gen.Z0 else if n > 0 then Gen.Zpos (pos_of_int n) else Gen.Zneg (pos_of_int (- n))

let () =
  let tier = int_of_string Sys.argv.(1) and seed = int_of_string Sys.argv.(2) in
  let out = Buffer.create (1 lsl 20) in
  List.iter (fun l -> List.iter (Buffer.add_char out) l; Buffer.add_char out '\n';
                      if Buffer.length out > (1 lsl 20) then (print_string (Buffer.contents out); Buffer.clear out))
            (Gen.CASES (z_of_int tier) (z_of_int seed));
  print_string (Buffer.contents out)
