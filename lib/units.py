"""The `units` stream (C13, C14): run /repo's current generator on every candidate unit."""
import os
import subprocess

from lib.engine import ROOT, GOENV, Stream, sh


def units_stream(name, fields, **kw):
    st = Stream(name, drv="units", sub="units", fields=fields, **kw)

    def prepare(tier, seed):
        hdir = os.path.join(ROOT, "harness")
        cmd = ["go", "build", "-o", os.path.join(ROOT, "build", "genrun")]
        if os.environ.get("VERIF_REPO", "/repo") != "/repo":
            cmd += ["-modfile=" + os.path.join(ROOT, ".cache", "alt.mod")]      # written by engine.build_tools (development aid)
        rc, out = sh(cmd + ["./cmd/genrun"], cwd=hdir, env=GOENV, timeout=900)
        if rc != 0:
            return "go build genrun (does /repo still compile?): " + out[-2000:]
        gopath = subprocess.run(["go", "env", "GOPATH"], stdout=subprocess.PIPE, env=GOENV).stdout.decode().strip()
        modcache = subprocess.run(["go", "env", "GOMODCACHE"], stdout=subprocess.PIPE, env=GOENV).stdout.decode().strip()
        # C13 and C14 project different fields of the same run: share it (keyed by the cases, /repo's sources and the runner)
        from lib.emit import _hash_inputs
        key = _hash_inputs("units")
        st.cmd = ("k={cache}/units/%s-$(sha1sum < {cases} | cut -c1-16).obs; mkdir -p {cache}/units; "
                  "if [ -f $k ]; then cp $k {obs}; exit 0; fi; "
                  "rm -rf {wd}/gp && mkdir -p {wd}/gp && GENRUN_MODCACHE=%s GENRUN_GOPATH=%s GOPATH={wd}/gp GO111MODULE=off "
                  "GENRUN_BUILDLOG={wd}/build.log {root}/build/genrun {wd}/gp {repo} < {cases} > {obs}; rc=$?; rm -rf {wd}/gp; "
                  "if [ $rc = 0 ]; then rm -f {cache}/units/*.obs; cp {obs} $k; fi; exit $rc"
                  % (key, modcache, gopath))
        return None
    st.prepare = prepare
    return st
