"""The `units` stream (C13, C14): run /repo's current generator on every candidate unit."""
import os
import subprocess

from lib.engine import ROOT, GOENV, Stream, sh


def units_stream(name, fields, **kw):
    st = Stream(name, drv="units", sub="units", fields=fields, **kw)

    def prepare(tier, seed):
        hdir = os.path.join(ROOT, "harness")
        cmd = ["go", "build", "-o", os.path.join(ROOT, "build", "genrun")]
        if os.environ.get("VERIF_REPO", "/repo") != "/repo":
            cmd += ["-modfile=" + os.path.join(ROOT, ".cache", "alt.mod")]      # written by engine.build_tools (development aid)
        rc, out = sh(cmd + ["./cmd/genrun"], cwd=hdir, env=GOENV, timeout=900)
        if rc != 0:
            return "go build genrun (does /repo still compile?): " + out[-2000:]
        gopath = subprocess.run(["go", "env", "GOPATH"], stdout=subprocess.PIPE, env=GOENV).stdout.decode().strip()
        modcache = subprocess.run(["go", "env", "GOMODCACHE"], stdout=subprocess.PIPE, env=GOENV).stdout.decode().strip()
        # C13 and C14 project different fields of the same run: share it (keyed by the cases, /repo's sources and the runner)
        from lib.emit import _hash_inputs
        key = _hash_inputs("units")
        # the main run (after a decoy generation, see genrun) and, for the multi-field and grouped units, a SECOND PROCESS that
        # has generated nothing else before: the sources (numbering normalised, field srchash) must be the same - what is
        # emitted for a declaration set must not depend on what the process generated earlier.  lib/hist.py merges the two.
        envs = "GENRUN_MODCACHE=%s GENRUN_GOPATH=%s GO111MODULE=off" % (modcache, gopath)
        st.cmd = ("k={cache}/units/%s-$(sha1sum < {cases} | cut -c1-16).obs; mkdir -p {cache}/units; "
                  "if [ -f $k ]; then cp $k {obs}; exit 0; fi; "
                  "rm -rf {wd}/gp && mkdir -p {wd}/gp && " + envs + " GOPATH={wd}/gp "
                  "GENRUN_BUILDLOG={wd}/build.log {root}/build/genrun {wd}/gp {repo} < {cases} > {obs}.main; rc=$?; rm -rf {wd}/gp; "
                  "[ $rc = 0 ] || exit $rc; "
                  "grep -P '^[MGR][A-Z0-9]*\\t' {cases} > {wd}/fresh.cases; rm -rf {wd}/gp2 && mkdir -p {wd}/gp2 && " + envs +
                  " GOPATH={wd}/gp2 GENRUN_NODECOY=1 GENRUN_HASHONLY=1 {root}/build/genrun {wd}/gp2 {repo} < {wd}/fresh.cases > {obs}.fresh; "
                  "rc=$?; rm -rf {wd}/gp2; [ $rc = 0 ] || exit $rc; "
                  "python3 {root}/lib/hist.py {obs}.main {obs}.fresh > {obs} && rm -f {cache}/units/*.obs && cp {obs} $k") % key
        return None
    st.prepare = prepare
    return st
