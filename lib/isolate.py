#!/usr/bin/env python3
"""lib/isolate.py <runner command ...> < cases > observations

Runs a case runner (one observation line `id<TAB>obs` per case line) so that a case that kills
the runner - stack overflow, fatal runtime error, os.Exit, an endless loop - is observed as
`ABORT:<why>` for that case instead of losing the stream: the whole batch runs in one child
process; when the child dies or hangs the batch is split and both halves run again, down to
the single aborting case."""
import subprocess
import sys

TIMEOUT = 120


def why(p, timed_out):
    if timed_out:
        return "timeout"
    err = p.stderr.decode("utf-8", "replace") if p is not None else ""
    if "stack overflow" in err or "stack exceeds" in err:
        return "stackoverflow"
    if "fatal error" in err:
        line = [l for l in err.splitlines() if "fatal error" in l][0]
        return "fatal(" + line.strip().replace("\t", " ")[:80] + ")"
    return "exit%d" % (p.returncode if p is not None else -1)


def run(cmd, lines, out):
    if not lines:
        return
    timed_out = False
    p = None
    try:
        p = subprocess.run(cmd, input="".join(lines).encode(), stdout=subprocess.PIPE, stderr=subprocess.PIPE,
                           timeout=TIMEOUT if len(lines) > 1 else 20)
        got = p.stdout.decode("utf-8", "replace").splitlines(True)
    except subprocess.TimeoutExpired:
        timed_out = True
        got = []
    if p is not None and p.returncode == 0 and len(got) == len(lines):
        out.extend(got)
        return
    if len(lines) == 1:
        out.append("%s\tABORT:%s\n" % (lines[0].split("\t", 1)[0], why(p, timed_out)))
        return
    mid = len(lines) // 2
    run(cmd, lines[:mid], out)
    run(cmd, lines[mid:], out)


def main():
    cmd = sys.argv[1:]
    lines = [l if l.endswith("\n") else l + "\n" for l in sys.stdin.read().splitlines(True) if len(l.split("\t")) >= 3]
    out = []
    run(cmd, lines, out)
    sys.stdout.write("".join(out))


if __name__ == "__main__":
    main()
