"""C13, second half: the shipped testobj_ins/*.go and testdata/*.xml must be what the current generator produces."""
import filecmp
import json
import os
import shutil
import subprocess
import tempfile

from lib.engine import ROOT, GOENV, sh


def post(tier, seed, cov, result):
    repo = os.environ.get("VERIF_REPO", "/repo")
    w = tempfile.mkdtemp(prefix="shipped.", dir=os.path.join(ROOT, ".cache"))
    diffs = []
    try:
        src = os.path.join(w, "src", "github.com", "koykov", "inspector")
        os.makedirs(src)
        shutil.copytree(os.path.join(repo, "testobj"), os.path.join(src, "testobj"))
        hdir = os.path.join(ROOT, "harness")
        cmd = ["go", "build", "-o", os.path.join(w, "gendrv")]
        if repo != "/repo":
            cmd += ["-modfile=" + os.path.join(ROOT, ".cache", "alt.mod")]
        rc, out = sh(cmd + ["./cmd/gendrv"], cwd=hdir, env=GOENV, timeout=900)
        if rc != 0:
            diffs.append("gendrv does not build: " + out[-500:])
        else:
            env = dict(GOENV, GOPATH=w, GO111MODULE="off")
            rc, out = sh([os.path.join(w, "gendrv"), "pkg", "github.com/koykov/inspector/testobj",
                          "github.com/koykov/inspector/testobj_ins", "xmlout"], cwd=w, env=env, timeout=900)
            if rc != 0:
                diffs.append("generator failed on testobj: " + out[-500:])
            else:
                for shipped_dir, gen_dir, ext in ((os.path.join(repo, "testobj_ins"), os.path.join(src, "testobj_ins"), ".go"),
                                                  (os.path.join(repo, "testdata"), os.path.join(w, "xmlout"), ".xml")):
                    a = sorted(f for f in os.listdir(shipped_dir) if f.endswith(ext))
                    b = sorted(f for f in os.listdir(gen_dir) if f.endswith(ext))
                    if a != b:
                        diffs.append("file sets differ in %s: shipped %s, generated %s" % (os.path.basename(shipped_dir), a, b))
                    for f in a:
                        if f in b and not filecmp.cmp(os.path.join(shipped_dir, f), os.path.join(gen_dir, f), shallow=False):
                            diffs.append("%s/%s differs from the generator's output" % (os.path.basename(shipped_dir), f))
                    cov["shipped_files_compared"] = cov.get("shipped_files_compared", 0) + len(a)
    finally:
        shutil.rmtree(w, ignore_errors=True)
    cov["shipped_differences"] = diffs
    if diffs and not result["violation"]:
        path = os.path.join("replays", "C13-shipped.json")
        os.makedirs(os.path.join(ROOT, "replays"), exist_ok=True)
        json.dump({"property": "C13", "kind": "shipped output is not what the current generator produces", "differences": diffs,
                   "how": "bin/regen-testobj <repo>; git -C <repo> diff"}, open(os.path.join(ROOT, path), "w"), indent=1)
        result["lines"].insert(0, "VIOLATION property=C13 replay=%s" % path)
        result["violation"] = True
