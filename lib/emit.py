"""Streams that run generated inspectors: build (and cache) a runner binary that links
the inspectors /repo's current generator produces for the model's emit units."""
import hashlib
import os
import shutil
import subprocess

from lib.engine import ROOT, CACHE, GOENV, Stream, sh


def _repo():
    return os.environ.get("VERIF_REPO", "/repo")


def _hash_inputs(units_text):
    h = hashlib.sha1()
    repo = _repo()
    for dp, dn, fs in os.walk(repo):
        dn[:] = [d for d in dn if d not in (".git", "test", "testobj_ins", "testdata", "inspc")]
        for f in sorted(fs):
            if f.endswith(".go") or f in ("go.mod", "go.sum"):
                h.update(f.encode()); h.update(open(os.path.join(dp, f), "rb").read())
    for dp, _, fs in os.walk(os.path.join(ROOT, "harness")):
        for f in sorted(fs):
            if f.endswith(".go") or f == "go.mod":
                h.update(open(os.path.join(dp, f), "rb").read())
    h.update(units_text.encode())
    return h.hexdigest()[:16]


def build_runner(tier):
    """returns (path of erun, error)"""
    rc, out = sh([os.path.join(ROOT, "bin", "mldrv"), "emitunits"], timeout=900)
    if rc != 0:
        return None, "mldrv emitunits: " + out[-500:]
    hdir = os.path.join(ROOT, "harness")
    cmd = ["go", "build", "-o", os.path.join(ROOT, "build", "genrun")]
    if _repo() != "/repo":
        # development aid (as in engine.build_tools): the generator linked into genrun must be the scratch worktree's
        os.makedirs(CACHE, exist_ok=True)
        alt = os.path.join(CACHE, "alt.mod")
        open(alt, "w").write(open(os.path.join(hdir, "go.mod")).read().replace("=> /repo", "=> " + _repo()))
        shutil.copyfile(os.path.join(_repo(), "go.sum"), os.path.join(CACHE, "alt.sum"))
        cmd += ["-modfile=" + alt]
    rc, out = sh(cmd + ["./cmd/genrun"], cwd=hdir, env=GOENV, timeout=900)
    if rc != 0:
        return None, "go build genrun (does /repo still compile?): " + out[-2000:]
    tiern = "0" if tier == "quick" else "1"
    p = subprocess.run("ulimit -s unlimited 2>/dev/null; %s %s 1" % (os.path.join(ROOT, "build", "modeldrv_emitunits"), tiern),
                       shell=True, stdout=subprocess.PIPE, stderr=subprocess.PIPE)
    if p.returncode != 0:
        return None, "modeldrv_emitunits failed"
    units = p.stdout.decode()
    key = tiern + "-" + _hash_inputs(units)
    edir = os.path.join(CACHE, "emit")
    root = os.path.join(edir, key)
    erun = os.path.join(root, "erun")
    if os.path.exists(erun):
        return erun, None
    os.makedirs(edir, exist_ok=True)
    for old in os.listdir(edir):           # keep only the latest runner per tier
        if old.startswith(tiern + "-"):
            shutil.rmtree(os.path.join(edir, old), ignore_errors=True)
    os.makedirs(root)
    open(os.path.join(root, "units.txt"), "w").write(units)
    gopath = subprocess.run(["go", "env", "GOPATH"], stdout=subprocess.PIPE, env=GOENV).stdout.decode().strip()
    modcache = subprocess.run(["go", "env", "GOMODCACHE"], stdout=subprocess.PIPE, env=GOENV).stdout.decode().strip()
    env = dict(GOENV, GENRUN_MODE="emit", GENRUN_HARNESS=os.path.join(ROOT, "harness"), GENRUN_MODCACHE=modcache,
               GENRUN_GOPATH=gopath, GOPATH=root, GO111MODULE="off", GENRUN_BUILDLOG=os.path.join(root, "build.log"))
    rc, out = sh("%s %s %s < %s > %s" % (os.path.join(ROOT, "build", "genrun"), root, _repo(),
                                       os.path.join(root, "units.txt"), os.path.join(root, "units.obs")), env=env, timeout=3000)
    if rc != 0 or not os.path.exists(erun):
        return None, "building the runner of generated inspectors failed: " + out[-2000:]
    bad = [l.split("\t")[0] for l in open(os.path.join(root, "units.obs")) if "build=ok" not in l]
    if bad:
        return erun, None  # the units that do not compile answer NOTYPE: reported by the stream itself
    return erun, None


def emit_stream(name, drv, **kw):
    st = Stream(name, drv=drv, sub=name, **kw)

    def prepare(tier, seed):
        erun, err = build_runner(tier)
        if err:
            return err
        st.cmd = erun + " < {cases} > {obs}"
        return None
    st.prepare = prepare
    return st
