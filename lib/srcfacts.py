"""Regenerate coq/Gen/SourceFacts.v (conversion snippets, constants, sentinel errors, default registry) from the library
the harness is built against - /repo's current working tree - before the proofs are re-checked."""
import os
import subprocess

from lib.engine import ROOT, GOENV, sh

FACTS = os.path.join(ROOT, "coq", "Gen", "SourceFacts.v")


def pre(tier, seed):
    hdir = os.path.join(ROOT, "harness")
    repo = os.environ.get("VERIF_REPO", "/repo")
    import shutil
    try:
        shutil.copyfile(os.path.join(repo, "go.sum"), os.path.join(hdir, "go.sum"))
    except Exception:
        pass
    cmd = ["go", "build", "-o", os.path.join(ROOT, "build", "srcfacts")]
    if repo != "/repo":
        os.makedirs(os.path.join(ROOT, ".cache"), exist_ok=True)
        alt = os.path.join(ROOT, ".cache", "alt.mod")
        open(alt, "w").write(open(os.path.join(hdir, "go.mod")).read().replace("=> /repo", "=> " + repo))
        shutil.copyfile(os.path.join(repo, "go.sum"), os.path.join(ROOT, ".cache", "alt.sum"))
        cmd += ["-modfile=" + alt]
    rc, out = sh(cmd + ["./cmd/srcfacts"], cwd=hdir, env=GOENV, timeout=900)
    if rc != 0:
        return {"error": "srcfacts does not build (does /repo still compile?): " + out[-800:]}
    p = subprocess.run([os.path.join(ROOT, "build", "srcfacts")], stdout=subprocess.PIPE, stderr=subprocess.PIPE, env=GOENV)
    if p.returncode != 0:
        return {"error": "srcfacts failed: " + p.stderr.decode()[-500:]}
    new = p.stdout.decode()
    old = open(FACTS).read() if os.path.exists(FACTS) else ""
    if new != old:
        open(FACTS, "w").write(new)
    return {"source_facts": "coq/Gen/SourceFacts.v regenerated from %s (%s)" % (repo, "changed" if new != old else "unchanged")}
