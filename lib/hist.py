#!/usr/bin/env python3
"""lib/hist.py <main obs> <fresh-process obs>: replace the srchash field of the main run by hist=ok|differs|- for the units
the fresh process generated as well (same sources up to numbering = ok), drop it for the others."""
import sys

fresh = {}
for l in open(sys.argv[2]):
    f = l.rstrip("\n").split("\t")
    if len(f) >= 2:
        d = dict(i.split("=", 1) for i in f[1].split(";") if "=" in i)
        fresh[f[0]] = d.get("srchash")
for l in open(sys.argv[1]):
    f = l.rstrip("\n").split("\t")
    if len(f) < 2:
        continue
    items = [i for i in f[1].split(";") if i]
    h = None
    kept = []
    for i in items:
        if i.startswith("srchash="):
            h = i[8:]
        else:
            kept.append(i)
    if f[0] in fresh and h is not None:
        kept.append("hist=" + ("ok" if fresh[f[0]] == h else "differs"))
    print(f[0] + "\t" + ";".join(kept))
