"""Generic check engine.

A property check = (a) the Coq obligations of coq/Properties/<id>.v, re-checked
by a full .vo build, (b) one or more correspondence streams: the extracted
Gallina case generator prints, per case, the input, what the executable model
does (`model`) and what the property demands (`spec`); the Go harness runs the
same input against /repo's current code and prints what it observed.

  obs != model                 -> the correspondence is broken
  obs not accepted by spec     -> the property fails on that concrete input (a replay)

Classification follows DESIGN.md section 4.4 / 8.
"""
import hashlib
import json
import os
import re
import subprocess
import sys
import time

ROOT = os.path.dirname(os.path.dirname(os.path.abspath(__file__)))
CACHE = os.path.join(ROOT, ".cache")
GOENV = dict(os.environ, GOFLAGS="-mod=mod", GOPROXY="off", GOSUMDB="off", GOTOOLCHAIN="local",
             CGO_ENABLED=os.environ.get("CGO_ENABLED", "0"))

TRUSTED_BASE = [
    "Coq 8.16.1 kernel (coqc full .vo build; vm_compute used, native_compute not used)",
    "Print Assumptions output under every theorem of coq/Properties/<id>.v (expected: Closed under the global context)",
    "extraction: ExtrOcamlBasic + ExtrOcamlString directives only; OCaml 4.13.1; print-only driver ocaml/driver.ml",
    "Go harness /verif/harness (value construction, canonical printers), Go toolchain",
    "the hand-written Gallina model is tied to /repo only by the correspondence streams run here",
]


def sh(cmd, cwd=None, env=None, timeout=3600, inp=None):
    p = subprocess.run(cmd, cwd=cwd, env=env, shell=isinstance(cmd, str), input=inp,
                       stdout=subprocess.PIPE, stderr=subprocess.STDOUT, timeout=timeout)
    return p.returncode, p.stdout.decode("utf-8", "replace")


class Stream:
    def __init__(self, name, drv, sub, nontrivial=None, descr="", prepare=None, env=None, cmd=None, fields=None, binary="hrun", select=None, vacuous=None):
        self.name = name          # stream name
        self.drv = drv            # extracted generator: coq/gen_<drv>.ml -> build/modeldrv_<drv>
        self.sub = sub            # hrun sub-command
        self.nontrivial = nontrivial or (lambda tags, inp: True)
        self.descr = descr
        self.prepare = prepare    # optional callable(ctx) run before the harness (e.g. generate inspectors)
        self.env = env or {}
        self.cmd = cmd            # optional shell template replacing the hrun call: {cases} {obs} {root} {cache} {repo}
        self.fields = fields      # optional projection: keep only these `key=value` items (separated by ';')
        self.binary = binary      # which harness binary runs the stream (build/<binary>)
        self.select = select      # optional predicate on the tag string: cases it rejects are not part of this stream
        self.vacuous = vacuous    # optional predicate (tags, projected observation): the case is outside the property's scope on this run (counted, not judged)


class Check:
    def __init__(self, pid, streams, level="proof", rule="", assumptions=None, extra_trusted=None,
                 theorem_file=None, oracle=None, post=None, pre=None):
        self.pid = pid
        self.streams = streams
        self.level = level
        self.rule = rule
        self.assumptions = assumptions or []
        self.extra_trusted = extra_trusted or []
        self.theorem_file = theorem_file or ("Properties/%s.v" % pid)
        self.post = post          # optional callable(tier, seed, cov, result) for property specific extras
        self.pre = pre            # optional callable(tier, seed) -> notes; runs before the proofs are (re)checked


# ---------------------------------------------------------------- known findings
def load_findings(pid):
    """KNOWN_FINDINGS lines:
         open: property=<id> key=<name> match=<regex over 'tags<TAB>input'> :: <what fails>
         fixed: property=<id> <commit> <what failed>
    """
    out = []
    lines = []
    path = os.path.join(ROOT, "KNOWN_FINDINGS")
    if os.path.exists(path):
        lines += open(path).readlines()
    fdir = os.path.join(ROOT, "findings")          # one file per property: findings/<ID>.txt, same line format
    if os.path.isdir(fdir):
        for f in sorted(os.listdir(fdir)):
            if f.endswith(".txt"):
                lines += open(os.path.join(fdir, f)).readlines()
    for line in lines:
        line = line.strip()
        if not line.startswith("open:"):
            continue
        m = re.match(r"open:\s+property=(\S+)\s+key=(\S+)\s+match=(\S+)\s+::\s*(.*)$", line)
        if m and m.group(1) == pid:
            out.append({"key": m.group(2), "re": re.compile(m.group(3)), "text": m.group(4), "hits": 0})
    return out


# ---------------------------------------------------------------- proofs
def check_proofs(check):
    """Full build + the Print Assumptions log of the property file."""
    t0 = time.time()
    rc, out = sh([os.path.join(ROOT, "bin", "coqbuild"), os.path.basename(check.theorem_file)[:-2]], timeout=3400)
    res = {"build_ok": rc == 0, "build_tail": out[-2000:] if rc != 0 else "", "theorems": [],
           "obligations": 0, "discharged": 0, "axioms": [], "wall_s": 0.0}
    vfile = os.path.join(ROOT, "coq", check.theorem_file)
    names = []
    if os.path.exists(vfile):
        src = open(vfile).read()
        names = re.findall(r"^(?:Theorem|Example)\s+(\w+)", src, re.M)
        # hygiene: no escape hatches anywhere in the development
    res["theorems"] = names
    res["obligations"] = len(names)
    bad = []
    for dp, _, fs in os.walk(os.path.join(ROOT, "coq")):
        for f in fs:
            if f.endswith(".v"):
                txt = open(os.path.join(dp, f)).read()
                txt = re.sub(r"\(\*.*?\*\)", "", txt, flags=re.S)
                for kw in ("Admitted", "admit", "Axiom ", "Parameter ", "Conjecture ", "Unset Guard", "bypass_check", "Admit Obligations"):
                    if re.search(r"(?<![A-Za-z_])" + re.escape(kw.strip()) + r"(?![A-Za-z_])", txt):
                        bad.append("%s: %s" % (f, kw.strip()))
    res["hygiene"] = bad
    if rc == 0 and not bad:
        log = os.path.join(ROOT, "coq", check.theorem_file[:-2] + ".log")
        if os.path.exists(log):
            txt = open(log).read()
            closed = txt.count("Closed under the global context")
            ax = re.findall(r"^Axioms:\n((?:.+\n)+)", txt, re.M)
            res["axioms"] = [a.strip() for a in ax]
            n_examples = len(re.findall(r"^Example\s+\w+", open(vfile).read(), re.M))
            n_thm = len(names) - n_examples
            # every Theorem must be followed by a Print Assumptions that reports closed
            res["discharged"] = min(closed, n_thm) + n_examples if not ax else 0
    res["wall_s"] = round(time.time() - t0, 2)
    return res


def run_coqchk(check):
    """thorough tier: re-check the property file and everything it depends on with the independent checker"""
    vo = check.theorem_file[:-2] + ".vo"
    rc, out = sh("timeout 3000 coqchk -silent -o -Q . Verif %s" % vo, cwd=os.path.join(ROOT, "coq"), timeout=3100)
    m = re.search(r"\* Axioms:(.*?)\n\s*\n\* Constants", out, re.S)
    axioms = m.group(1).strip() if m else "?"
    return {"rc": rc, "axioms": axioms, "summary": out[-600:]}


# ---------------------------------------------------------------- harness
def build_tools(streams):
    errs = []
    for d in sorted({s.drv for s in streams}):
        rc, out = sh([os.path.join(ROOT, "bin", "mldrv"), d], timeout=900)
        if rc != 0:
            errs.append("mldrv %s: %s" % (d, out[-800:]))
    hdir = os.path.join(ROOT, "harness")
    try:
        import shutil
        shutil.copyfile("/repo/go.sum", os.path.join(hdir, "go.sum"))
    except Exception as e:  # noqa
        errs.append("go.sum: %s" % e)
    os.makedirs(os.path.join(ROOT, "build"), exist_ok=True)
    cmd = ["go", "build", "-o", os.path.join(ROOT, "build", "hrun")]
    repo = os.environ.get("VERIF_REPO", "/repo")
    if repo != "/repo":
        # development aid: run the harness against a scratch worktree of koykov/inspector
        os.makedirs(CACHE, exist_ok=True)
        alt = os.path.join(CACHE, "alt.mod")
        open(alt, "w").write(open(os.path.join(hdir, "go.mod")).read().replace("=> /repo", "=> " + repo))
        import shutil
        shutil.copyfile(os.path.join(repo, "go.sum"), os.path.join(CACHE, "alt.sum"))
        cmd += ["-modfile=" + alt]
    rc, out = sh(cmd + ["./cmd/hrun"], cwd=hdir, env=GOENV, timeout=1800)
    if rc != 0:
        errs.append("go build hrun (does /repo still compile?): %s" % out[-3000:])
    return errs


def accepted(obs, spec):
    if spec == "*":
        return True
    return obs in spec.split(" || ")


def run_stream(check, st, tier, seed, only_ids=None, cases_override=None):
    wd = os.path.join(CACHE, "run", check.pid, st.name)
    os.makedirs(wd, exist_ok=True)
    cases_path = os.path.join(wd, "cases.txt")
    if cases_override is not None:
        open(cases_path, "w").write(cases_override)
    else:
        tiern = "0" if tier == "quick" else "1"
        drv = os.path.join(ROOT, "build", "modeldrv_" + st.drv)
        # the generator is a pure function of (binary, tier, seed): reuse its output
        key = "%s-%s-%d-%d" % (st.drv, tiern, seed, int(os.path.getmtime(drv) * 1000))
        cdir = os.path.join(CACHE, "cases")
        os.makedirs(cdir, exist_ok=True)
        cfile = os.path.join(cdir, key + ".txt")
        if not os.path.exists(cfile):
            for old in os.listdir(cdir):
                if old.startswith("%s-%s-" % (st.drv, tiern)):
                    os.remove(os.path.join(cdir, old))
            rc, out = sh("ulimit -s unlimited 2>/dev/null; %s %s %d > %s.tmp && mv %s.tmp %s" % (drv, tiern, seed, cfile, cfile, cfile), timeout=3000)
            if rc != 0:
                return {"error": "model driver failed: " + out[-500:]}
        import shutil
        shutil.copyfile(cfile, cases_path)
    env = dict(GOENV)
    env.update(st.env)
    obs_path = os.path.join(wd, "obs.txt")
    if st.cmd:
        cmdline = st.cmd.format(cases=cases_path, obs=obs_path, root=ROOT, cache=CACHE, repo=os.environ.get("VERIF_REPO", "/repo"), wd=wd)
    else:
        cmdline = "%s %s < %s > %s" % (os.path.join(ROOT, "build", st.binary), st.sub, cases_path, obs_path)
    rc, out = sh(cmdline, env=env, timeout=3000)
    if rc != 0:
        return {"error": "harness failed: " + out[-1500:]}
    def proj(x):
        if not st.fields or x in ("?", "*"):
            return x
        return ";".join(i for i in x.split(";") if i.split("=", 1)[0] in st.fields)
    cases = {}
    order = []
    for line in open(cases_path, encoding="utf-8", errors="replace"):
        f = line.rstrip("\n").split("\t")
        if len(f) >= 5 and (st.select is None or st.select(f[1])):
            f[3] = proj(f[3]); f[4] = " || ".join(proj(a) for a in f[4].split(" || "))
            cases[f[0]] = f
            order.append(f[0])
    obs = {}
    for line in open(obs_path, encoding="utf-8", errors="replace"):
        f = line.rstrip("\n").split("\t")
        if len(f) >= 2 and f[0] in cases:
            obs[f[0]] = proj(f[1])
    return {"cases": cases, "order": order, "obs": obs}


def write_replay(check, st, case, obs, kind):
    h = hashlib.sha1(("%s|%s|%s" % (st.name, case[2], kind)).encode()).hexdigest()[:12]
    os.makedirs(os.path.join(ROOT, "replays"), exist_ok=True)
    path = os.path.join(ROOT, "replays", "%s-%s.json" % (check.pid, h))
    json.dump({"property": check.pid, "stream": st.name, "kind": kind, "id": case[0], "tags": case[1],
               "input": case[2], "model": case[3], "spec": case[4], "observed": obs,
               "how": "bin/check %s --replay %s" % (check.pid, os.path.relpath(path, ROOT))},
              open(path, "w"), indent=1)
    return os.path.relpath(path, ROOT)


def main(check, argv):
    tier = os.environ.get("VERIF_TIER", "quick")
    seed = int(os.environ.get("VERIF_SEED", "1") or "1")
    replay = None
    i = 0
    while i < len(argv):
        if argv[i] == "--tier":
            tier = argv[i + 1]; i += 2
        elif argv[i] == "--replay":
            replay = argv[i + 1]; i += 2
        elif argv[i] == "--seed":
            seed = int(argv[i + 1]); i += 2
        else:
            i += 1
    if tier not in ("quick", "thorough"):
        tier = "quick"
    t0 = time.time()
    pid = check.pid
    lines = []          # stdout lines
    findings = load_findings(pid)

    pre_notes = check.pre(tier, seed) if check.pre else None
    proofs = check_proofs(check)
    proof_broken = (not proofs["build_ok"]) or proofs["hygiene"] or proofs["discharged"] != proofs["obligations"] or proofs["obligations"] == 0
    tool_errs = build_tools(check.streams)

    evaluations = 0
    out_of_scope = 0
    nontrivial = set()
    samples = []
    distribution = {}
    corr = []           # (stream, case, obs)
    specfail = []       # (stream, case, obs)
    stream_errs = list(tool_errs)
    per_stream = {}
    if not tool_errs:
        for st in check.streams:
            if st.prepare:
                e = st.prepare(tier, seed)
                if e:
                    stream_errs.append("%s prepare: %s" % (st.name, e)); continue
            override = None
            if replay:
                rp = json.load(open(os.path.join(ROOT, replay) if not os.path.isabs(replay) else replay))
                if rp.get("stream") != st.name:
                    continue
                override = "\t".join([rp["id"], rp["tags"], rp["input"], rp["model"], rp["spec"]]) + "\n"
            r = run_stream(check, st, tier, seed, cases_override=override)
            if "error" in r:
                stream_errs.append("%s: %s" % (st.name, r["error"])); continue
            n_here = 0
            for cid in r["order"]:
                c = r["cases"][cid]
                o = r["obs"].get(cid, "<missing>")
                if st.vacuous and st.vacuous(c[1], o):
                    out_of_scope += 1
                    continue
                evaluations += 1; n_here += 1
                for t in c[1].split(","):
                    distribution[st.name + ":" + t] = distribution.get(st.name + ":" + t, 0) + 1
                if st.nontrivial(c[1], c[2]):
                    nontrivial.add(st.name + "|" + c[2])
                if len(samples) < 6 and (n_here % max(1, len(r["order"]) // 3) == 1):
                    samples.append({"stream": st.name, "id": cid, "tags": c[1], "input": c[2][:300], "model": c[3][:300], "observed": o[:300]})
                if c[3] != "?" and o != c[3]:
                    corr.append((st, c, o))
                if not accepted(o, c[4]):
                    specfail.append((st, c, o))
            per_stream[st.name] = n_here

    # classify property failures
    unknown = []
    for st, c, o in specfail:
        key = c[1] + "\t" + c[2]
        hit = None
        for f in findings:
            if f["re"].search(key):
                hit = f; break
        if hit:
            hit["hits"] += 1
        else:
            unknown.append((st, c, o))

    violation = False
    if unknown:
        st, c, o = unknown[0]
        path = write_replay(check, st, c, o, "property-fails-on-real-code")
        lines.append("VIOLATION property=%s replay=%s" % (pid, path))
        violation = True
    elif corr or proof_broken or stream_errs:
        # the property is no longer shown to hold; no failing input beyond the listed findings
        os.makedirs(os.path.join(ROOT, "replays"), exist_ok=True)
        path = os.path.join("replays", "%s-unproved.json" % pid)
        what = {"property": pid, "proof_build_ok": proofs["build_ok"], "hygiene": proofs["hygiene"],
                "theorems": proofs["theorems"], "obligations": proofs["obligations"], "discharged": proofs["discharged"],
                "build_tail": proofs["build_tail"], "stream_errors": stream_errs,
                "broken_correspondence": [{"stream": st.name, "id": c[0], "input": c[2], "model": c[3], "observed": o} for st, c, o in corr[:20]],
                "n_correspondence_differences": len(corr), "regenerated": pre_notes}
        json.dump(what, open(os.path.join(ROOT, path), "w"), indent=1)
        lines.append("VIOLATION property=%s replay=%s no-failing-input-found" % (pid, path))
        violation = True
    for f in findings:
        if f["hits"] > 0:
            lines.append("KNOWN-FINDING: property=%s %s [%s, %d cases]" % (pid, f["text"], f["key"], f["hits"]))
        elif not replay:
            lines.append("NOTE: listed finding %s of %s did not reproduce in this run (stale?)" % (f["key"], pid))

    result = {"violation": violation, "lines": lines}
    cov = {
        "obligations": proofs["obligations"], "discharged": proofs["discharged"],
        "checker_cmd": "bin/coqbuild  (coq_makefile + make -j16, full .vo; then coqc of %s for the Print Assumptions log)" % check.theorem_file,
        "trusted_base": TRUSTED_BASE + check.extra_trusted,
        "theorems": proofs["theorems"], "axioms_reported": proofs["axioms"],
        "evaluations": evaluations, "distinct_nontrivial": len(nontrivial),
        "rule": check.rule, "samples": samples, "distribution": distribution,
        "per_stream": per_stream,
        "correspondence_differences": len(corr), "property_failures_on_real_code": len(specfail),
        "known_finding_hits": {f["key"]: f["hits"] for f in findings},
        "exhaustive": False,
    }
    if out_of_scope:
        cov["out_of_scope_cases"] = out_of_scope
    if pre_notes:
        cov["regenerated"] = pre_notes
    if tier == "thorough" and not replay and proofs["build_ok"]:
        cov["coqchk"] = run_coqchk(check)
        if cov["coqchk"]["rc"] != 0 and not result["violation"]:
            result["lines"].insert(0, "VIOLATION property=%s replay=replays/%s-unproved.json no-failing-input-found" % (pid, pid))
            os.makedirs(os.path.join(ROOT, "replays"), exist_ok=True)
            json.dump({"property": pid, "coqchk": cov["coqchk"]}, open(os.path.join(ROOT, "replays", "%s-unproved.json" % pid), "w"), indent=1)
            result["violation"] = True
    if check.post:
        check.post(tier, seed, cov, result)
        violation = result["violation"]; lines = result["lines"]
    ev = {"property_id": pid, "tier": tier, "seed": seed, "level": check.level, "coverage": cov,
          "assumptions": check.assumptions, "wall_s": round(time.time() - t0, 2),
          "violations": 1 if violation else 0}
    if not replay:
        os.makedirs(os.path.join(ROOT, "evidence"), exist_ok=True)
        tmp = os.path.join(ROOT, "evidence", pid + ".json.tmp")
        json.dump(ev, open(tmp, "w"), indent=1)
        os.replace(tmp, os.path.join(ROOT, "evidence", pid + ".json"))
    for l in lines:
        print(l)
    print("%s %s: proofs %d/%d, %d cases (%d distinct non-trivial), %d correspondence differences, %d property failures (%d not listed), %.1fs"
          % (pid, tier, proofs["discharged"], proofs["obligations"], evaluations, len(nontrivial), len(corr), len(specfail), len(unknown), time.time() - t0))
    sys.exit(1 if violation else 0)
