from lib.engine import Check, Stream

CHECK = Check(
    "C07",
    streams=[Stream("buffer", drv="c07", sub="c07",
                    nontrivial=lambda tags, inp: ("client" in tags or "reset" in tags or "reuse" in tags or "builtin" in tags
                                                  or "spare" in tags or "held" in tags),
                    descr="histories over one ByteBuffer")],
    rule=("histories over one buffer: exhaustive over an 18-operation alphabet (Bufferize, BufferizeString, "
          "Acquire/append/Release, AssignBuf to bytes and to string, generated TestObject CopyTo into a fresh destination and "
          "into the destination of the previous CopyTo (its fields still holding the earlier values, which stay with their "
          "holders by value), Reset, client overwrite / append (fitting and growing) / unbuffered Assign on handed-out slices, "
          "a handed-out value fed back) to length 3 (quick) or 4 (thorough) x initial capacity {0, tight, roomy}, plus seeded "
          "random histories up to length 40 (there also: CopyTo of TestHistory and TestObject1 - []byte, *[]byte, nested "
          "struct fields -, fresh and non-fresh destinations with values shorter / equal / longer than what the field holds, "
          "buffered Assign into the field that holds an earlier value). CopyTo of the BUILT-IN inspectors: [nothing | one value "
          "handed out | buffer used and reset] + one of 9 copies (StringAnyMapInspector on a flat map, text on the outer level "
          "and in a nested map, nested *map / **map with *string / *[]byte values, text only below the outer level, three "
          "levels; StringsInspector []string / [][]byte -> *[]string / *[][]byte, the four pairings, an empty element) + one of "
          "17 operations after it (every buffer operation, client overwrite / append / unbuffered Assign / feed back on the "
          "last copy AND on its source, a map / strings CopyTo into the destination used before) x the three capacities, plus "
          "60 (quick) / 1500 (thorough) seeded random histories mixing random nested maps (depth <= 3), strings copies and "
          "client-owned source values with all other operations; thorough adds three more pasts and two operations after the "
          "copy. SOURCES WITH SPARE CAPACITY, observed over their whole capacity: [a string of the client + a []byte that is "
          "empty but allocated (cap 8) | filled below its capacity | filled and emptied by x = x[:0] | handed out by the buffer and "
          "emptied | without spare capacity] + one of 9 copies OF THAT VERY VALUE (ByteBuffer.Bufferize; generated CopyTo of "
          "TestHistory / TestObject / TestObject with two fields holding it / TestObject1 whose fields hold the observed values; "
          "StringAnyMapInspector, StringsInspector to *[][]byte and to *[]string, StaticInspector CopyTo of a map / list / single "
          "value holding them) + a second copy (the same one into the destination used before, or the other kind; thorough: each "
          "of the 9) + one of 7 operations (append to the last copy, to the first copy, to the SOURCE inside its spare capacity, "
          "unbuffered Assign on the copy and on the source, feed back, one more Bufferize) x capacities {0, roomy} (thorough: "
          "three), plus 60 / 1500 seeded random histories mixing such sources (spare 0..8), x = x[:0] on any value and copies of "
          "1-4 observed values through every inspector with all other operations. "
          "Every source text and every copied text of a built-in CopyTo is a holder of its own (source, copy, ... in the "
          "order of the case text, independent of Go's map iteration order). After every step every live handed-out "
          "value is re-read and all address ranges (capacity included) are tested for overlap. Non-trivial = contains a client "
          "mutation, a Reset, a destination used again, a built-in CopyTo / watched source, a value with spare capacity or a copy "
          "of observed values; distinct = distinct input string."),
    assumptions=["append growth is an oracle: theorems quantify over every growth policy; the model run uses extra=0 and only "
                 "growth-independent observables are compared (buffer length, contents, overlap)",
                 "amd64; strings handed out are immutable",
                 "Go's map iteration order is not modelled: a map[string]any source is a token list in one order, the observables "
                 "compared (buffer length, content of every holder, overlap) do not depend on the order for the tight buffer "
                 "(C07_content_stable / C07_no_overlap hold for every token list), and the holders are listed in the order of the "
                 "case text"],
)

MANIFEST = {
    "category": "proof",
    "text": ("Rocq theorems C07_content_stable / C07_no_overlap / C07_inv_reachable: for every history over one buffer, every initial "
             "capacity and every append growth policy, each value handed out since the last Reset reads what its holder is entitled to "
             "and no two live handed-out values overlap, capacity included (induction over the operation list on an explicit byte-array "
             "heap; the operations include CopyTo / buffered Assign into a destination that is not fresh, "
             "C07_used_destination_as_fresh; CopyTo of the built-in map[string]any and []string / [][]byte inspectors with every "
             "source text observed next to its copy, equal to the sequence of its Bufferize calls: "
             "C07_builtin_copy_is_bufferize_sequence; client-owned []byte sources with spare capacity - empty but allocated, or filled "
             "below capacity - observed over their whole capacity in an array of their own, C07_source_extent_is_capacity / "
             "C07_pairwise_disjoint; x = x[:0] on any value, C07_truncate_is_empty_refill; copies whose source fields are observed "
             "values, through the generated, map, strings and static inspectors, C07_copy_of_observed_is_copy_of_content). C07_refuted_loose shows the pre-fix slicing violates it. The model is tied to /repo by running the extracted model "
             "and the real ByteBuffer / AssignBuf / generated CopyTo / StringAnyMapInspector.CopyTo / StringsInspector.CopyTo / StaticInspector.CopyTo on the same "
             "histories."),
    "note": ("Trusted: Coq kernel, extraction (ExtrOcamlBasic+ExtrOcamlString), Go harness. Modelled not verified: buffer.go, bufferize.go, "
             "the buffered branches of assign_builtin.go, the cpy statement pattern, cpy of stranymap.go, CopyTo of strings.go and the text cases of CopyTo of static.go; Go's append growth is an oracle. No axioms."),
    "technique": "Rocq invariant proof by induction over operation histories + extracted-model correspondence",
}
