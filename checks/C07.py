from lib.engine import Check, Stream

CHECK = Check(
    "C07",
    streams=[Stream("buffer", drv="c07", sub="c07",
                    nontrivial=lambda tags, inp: "client" in tags or "reset" in tags or "reuse" in tags,
                    descr="histories over one ByteBuffer")],
    rule=("histories over one buffer: exhaustive over an 18-operation alphabet (Bufferize, BufferizeString, "
          "Acquire/append/Release, AssignBuf to bytes and to string, generated TestObject CopyTo into a fresh destination and "
          "into the destination of the previous CopyTo (its fields still holding the earlier values, which stay with their "
          "holders by value), Reset, client overwrite / append (fitting and growing) / unbuffered Assign on handed-out slices, "
          "a handed-out value fed back) to length 3 (quick) or 4 (thorough) x initial capacity {0, tight, roomy}, plus seeded "
          "random histories up to length 40 (there also: CopyTo of TestHistory and TestObject1 - []byte, *[]byte, nested "
          "struct fields -, fresh and non-fresh destinations with values shorter / equal / longer than what the field holds, "
          "buffered Assign into the field that holds an earlier value); after every step every live handed-out "
          "value is re-read and all address ranges (capacity included) are tested for overlap. Non-trivial = contains a client "
          "mutation, a Reset or a destination used again; distinct = distinct input string."),
    assumptions=["append growth is an oracle: theorems quantify over every growth policy; the model run uses extra=0 and only "
                 "growth-independent observables are compared (buffer length, contents, overlap)",
                 "amd64; strings handed out are immutable"],
)

MANIFEST = {
    "category": "proof",
    "text": ("Rocq theorems C07_content_stable / C07_no_overlap / C07_inv_reachable: for every history over one buffer, every initial "
             "capacity and every append growth policy, each value handed out since the last Reset reads what its holder is entitled to "
             "and no two live handed-out values overlap, capacity included (induction over the operation list on an explicit byte-array "
             "heap; the operations include CopyTo / buffered Assign into a destination that is not fresh, "
             "C07_used_destination_as_fresh). C07_refuted_loose shows the pre-fix slicing violates it. The model is tied to /repo by running the extracted model "
             "and the real ByteBuffer / AssignBuf / generated CopyTo on the same histories."),
    "note": ("Trusted: Coq kernel, extraction (ExtrOcamlBasic+ExtrOcamlString), Go harness. Modelled not verified: buffer.go, bufferize.go, "
             "the buffered branches of assign_builtin.go, the cpy statement pattern; Go's append growth is an oracle. No axioms."),
    "technique": "Rocq invariant proof by induction over operation histories + extracted-model correspondence",
}
