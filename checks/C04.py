from lib.engine import Check
from lib.emit import emit_stream
from lib import srcfacts

CHECK = Check(
    "C04",
    pre=srcfacts.pre,
    streams=[emit_stream("c04", drv="c04")],
    rule=("generated inspectors of the model's emit units x value variants x every resolving path and the unknown-field / "
          "absent-key / index -1,len,len+1,huge / unparsable-segment / nil-pointer / past-scalar variants x right operands chosen "
          "by what the path denotes (equal, adjacent, far, boundary of the kind, outside its range, hex/octal/binary/underscore/"
          "signed/exponent spellings, unparsable texts, \"nil\") x the six operators and OpUnk/OpInc (operators rotate over the operands; "
          "thorough: all supported units over every scalar kind); every Compare runs twice, *result preset false and true; "
          "distinct = distinct input text, all non-trivial."),
    assumptions=["an operand parses as the element's type when strconv's reader of that family accepts it (ParseInt/ParseUint base 0, "
                 "ParseFloat on the decimal/inf/nan grammar, ParseBool); integers outside the kind's range, float32 overflow, and "
                 "`byte` elements: the property is read as silent",
                 "a non-nil pointer to a scalar/string/bytes denotes that scalar; nil pointers, structs and collections with an operand "
                 "other than \"nil\": silent; \"nil\" under an operator other than ==/!=: silent",
                 "an unparsable key or index segment may return the parse error or leave the result untouched",
                 "float operands stay inside the modelled ParseFloat grammar (no hex floats, no underscores)"],
)

MANIFEST = {
    "category": "proof",
    "text": ("Rocq model of the code emitted by writeNode(modeCmp)/writeCmp (structural recursion on the node tree, after four fix: "
             "commits) with theorems by induction on the node for all well-formed nodes, well-typed values, paths, operators and "
             "operands: Compare meets the demand computed from native navigation + native comparison; no panic; the only error is "
             "the parse error. Correspondence: the extracted model predicts, and the spec judges, every case the real generated "
             "Compare methods are run on."),
    "note": ("Trusted: Coq kernel, extraction, Go harness (reflection value builder), Go compiler. The model is tied to the generator "
             "only through the generated inspectors' behaviour on the enumerated units. No axioms."),
    "technique": "Rocq proof by induction on the type tree + extracted-model correspondence on generated inspectors",
}
