from lib.engine import Check
from lib.emit import emit_stream
from lib import srcfacts

CHECK = Check(
    "C05",
    pre=srcfacts.pre,
    streams=[emit_stream("c05", drv="c05")],
    rule=("generated inspectors of the model's emit units (quick: every third supported unit of the representative shape set + "
          "multi-field structs; thorough: every supported depth<=2 unit) x value variants x pairs (a, a itself - one object passed "
          "twice), (a, independently built structural copy), (a, copy with exactly one mutation at every position: scalar / string / "
          "bytes change, float shift of 10x and 0.1x the tolerance, element added / removed, key added / removed / renamed, pointer "
          "set / cleared, nil <-> empty collection), DeepEqual called in both argument orders in every case; plus the header on "
          "other argument forms (typed and untyped nils, foreign types, nil **T); plus the argument-form matrix: every ordered "
          "combination of the operand forms (T, *T, **T) x (T, *T, **T), both argument orders in each, all forms of an operand "
          "being views of one object, on (a, a itself) and (a, independent copy) of the unit's most populated variant and on the "
          "first mutation of every kind the unit has (scalar, string, bytes, float 10x / 0.1x, key added / removed / renamed, "
          "element added / removed, pointer cleared / set, nil <-> empty) - the demanded answer in every cell, and where the text "
          "leaves the answer open one and the same answer in all cells. distinct = distinct input text."),
    assumptions=["finite floats only (the property's quantifier)",
                 "pointer map keys compare by identity: an independently built copy of a non-empty pointer-keyed map has other keys, "
                 "so the text does not require it to compare equal (it does not: key set differs)",
                 "a float difference within the tolerance may be reported either way, but the same in both argument orders"],
)

MANIFEST = {
    "category": "proof",
    "text": ("Rocq model of the code emitted by writeNodeDEQ and of the DeepEqual header (structural recursion on the node tree), "
             "theorems by induction on the node for all well-formed nodes and all well-typed values: reflexive (finite floats), "
             "symmetric for every pair (map pigeonhole, |a-b| = |b-a| on SpecFloat), true on structurally identical values, false "
             "on every difference of a listed kind, the same answer in every combination of operand forms (T, *T, **T). Correspondence: the extracted model predicts, and the structural-equality spec "
             "judges, every pair the real generated DeepEqual is run on, in both argument orders."),
    "note": ("Trusted: Coq kernel, extraction, Go harness (reflection value builder), Go compiler. The model is tied to the generator "
             "only through the generated inspectors' behaviour on the enumerated units. No axioms."),
    "technique": "Rocq proof by induction on the type tree + extracted-model correspondence on generated inspectors",
}
