import json
import os
import subprocess

from lib.engine import Check, ROOT, GOENV, sh

FACTS = os.path.join(ROOT, "coq", "Gen", "FootprintFacts.v")


def pre(tier, seed):
    """Regenerate the call-graph / global-store / result-derived-from-parameter facts from /repo's current source; the theorem
    file is re-checked against them."""
    repo = os.environ.get("VERIF_REPO", "/repo")
    hdir = os.path.join(ROOT, "harness")
    rc, out = sh(["go", "build", "-o", os.path.join(ROOT, "build", "footprint"), "./cmd/footprint"], cwd=hdir, env=GOENV, timeout=900)
    if rc != 0:
        return {"error": "footprint does not build: " + out[-500:]}
    p = subprocess.run([os.path.join(ROOT, "build", "footprint"), repo], stdout=subprocess.PIPE, stderr=subprocess.PIPE, env=GOENV)
    if p.returncode != 0:
        return {"error": "footprint extraction failed: " + p.stderr.decode()[-500:]}
    new = p.stdout.decode()
    old = open(FACTS).read() if os.path.exists(FACTS) else ""
    changed = new != old
    if changed:
        open(FACTS, "w").write(new)
    # the failing-input search for a broken theorem: which reachable function stores to which global
    import re
    fns = {}
    for m in re.finditer(r'\((\d+), "([^"]*)", \[([^\]]*)\], \[([^\]]*)\]\)', new):
        fns[int(m.group(1))] = (m.group(2), [int(x) for x in m.group(3).split(";") if x.strip()], [w.strip().strip('"') for w in m.group(4).split(";") if w.strip()])
    roots = [int(x) for x in re.search(r"fp_roots : list N := \[([^\]]*)\]", new).group(1).split(";") if x.strip()]
    seen, work, parent = set(), list(roots), {}
    while work:
        i = work.pop()
        if i in seen:
            continue
        seen.add(i)
        for j in fns.get(i, ("", [], []))[1]:
            if j not in seen:
                parent.setdefault(j, i); work.append(j)
    offenders = []
    for i in sorted(seen):
        if fns[i][2]:
            chain, k = [fns[i][0]], i
            while k in parent and len(chain) < 12:
                k = parent[k]; chain.append(fns[k][0])
            offenders.append({"function": fns[i][0], "stores_to": fns[i][2], "reached_from": chain[::-1]})
    # ... and for the copy primitives: which of them hands out memory of its source (parameter 1)
    rf = {}
    m = re.search(r"fp_result_from : list \(N \* list N\) := \[(.*?)\n\]\.", new, re.S)
    for e in re.finditer(r"\((\d+), \[([^\]]*)\]\)", m.group(1) if m else ""):
        rf[int(e.group(1))] = [int(x) for x in e.group(2).split(";") if x.strip()]
    prims = ("github.com/koykov/inspector.Bufferize", "github.com/koykov/inspector.BufferizeString",
             "(*github.com/koykov/inspector.ByteBuffer).Bufferize", "(*github.com/koykov/inspector.ByteBuffer).BufferizeString")
    handing_out = [{"function": fns[i][0], "results_may_be_derived_from_parameters": rf.get(i, []),
                    "means": "the text a Copy/CopyTo stores into the destination may be the SOURCE's memory, not the buffer's"}
                   for i in sorted(fns) if fns[i][0] in prims and 1 in rf.get(i, [])]
    # ... and for the read operations: which of them may write through the inspector or the value it reads, and which Loop
    # leaves in the caller's key buffer (parameter 3) something that is not memory of that buffer
    sf = {}
    m = re.search(r"fp_store_from : list \(N \* list \(N \* list N\)\) := \[(.*?)\n\]\.", new, re.S)
    for line in (m.group(1) if m else "").split("\n"):
        e = re.match(r"\s*\((\d+), \[(.*)\]\);?$", line)
        if e:
            sf[int(e.group(1))] = [(int(t), [int(x) for x in fr.split(";") if x.strip()]) for t, fr in re.findall(r"\((\d+), \[([^\]]*)\]\)", e.group(2))]
    reads = ("Get", "GetTo", "Compare", "Loop", "Length", "Capacity", "Copy", "TypeName")
    deqs = ("DeepEqual", "DeepEqualWithOptions")
    pname = {"Loop": ["inspector", "src", "iterator", "key buffer", "path"], "GetTo": ["inspector", "src", "result buffer", "path"],
             "Compare": ["inspector", "src", "op", "right", "result", "path"]}
    writing_reads, foreign_keys = [], []
    for i in sorted(fns):
        name = fns[i][0]
        meth = name.rsplit(").", 1)[-1] if "Inspector)." in name else None
        for t, fr in sf.get(i, []):
            if (meth in reads and t in (0, 1)) or (meth in deqs and t in (0, 1, 2, 3)):
                writing_reads.append({"function": name, "may_write_through_parameter": t, "values_stored_derived_from_parameters": fr,
                                      "means": "a read operation may write the shared value it reads (or the inspector): two goroutines reading one value race"})
            if meth == "Loop" and t == 3 and [q for q in fr if q != 3]:
                foreign_keys.append({"function": name, "parameters": pname["Loop"], "stored_through": 3, "derived_from": fr,
                                     "means": "after Loop the caller's key buffer may be memory of the value looped over (or of another argument), "
                                              "not its own: the next operation that writes into the buffer writes into that memory"})
            if meth in ("Compare", "Length", "Capacity") and t == {"Compare": 4}.get(meth, 2) and fr:
                foreign_keys.append({"function": name, "stored_through": t, "derived_from": fr, "means": "a scalar result carries memory of an argument"})
    # ... and for the generated Copy / CopyTo / cpy: which of them puts memory of the SOURCE into the destination (a pointer
    # of the source assigned, appended or used as a key instead of a new cell with the value copied)
    cparams = {"cpy": (["inspector", "buf", "l (destination)", "r (source)"], 2, (1, 2)),
               "CopyTo": (["inspector", "src", "dst", "buf"], 2, (2, 3))}
    sharing_copies = []
    for i in sorted(fns):
        name = fns[i][0]
        if "/testobj_ins." not in name or "Inspector)." not in name:
            continue
        meth = name.rsplit(").", 1)[-1]
        if meth in cparams:
            names, t, allowed = cparams[meth]
            for tt, fr in sf.get(i, []):
                if tt == t and [q for q in fr if q not in allowed]:
                    sharing_copies.append({"function": name, "parameters": names, "stored_through": t, "derived_from": fr,
                                           "means": "what the copy stores into the destination may be memory of the SOURCE (a pointer element, "
                                                    "pointer map value or pointer key taken over instead of a new cell): a goroutine writing to its "
                                                    "private copy then writes the shared value"})
        elif meth == "Copy" and 1 in rf.get(i, []):
            sharing_copies.append({"function": name, "results_may_be_derived_from_parameters": rf.get(i, []),
                                   "means": "the value Copy returns may be memory of its source"})
    # ... and for every inspector: which operation may rewrite text where it lies - write bytes in place into a byte array
    # that is not its buffer's (text is assigned by reference: the bytes a private value holds may be a shared value's)
    ti = {}
    m = re.search(r"fp_text_into : list \(N \* list N\) := \[(.*?)\n\]\.", new, re.S)
    for e in re.finditer(r"\((\d+), \[([^\]]*)\]\)", m.group(1) if m else ""):
        ti[int(e.group(1))] = [int(x) for x in e.group(2).split(";") if x.strip()]
    tparams = {"cpy": (["inspector", "buf", "l (destination)", "r (source)"], (1,)),
               "CopyTo": (["inspector", "src", "dst", "buf"], (3,)),
               "SetWithBuffer": (["inspector", "dst", "value", "buf", "path"], (3,)),
               "Loop": (["inspector", "src", "iterator", "key buffer", "path"], (3,)),
               "Set": (["inspector", "dst", "value", "path"], ()), "Copy": (["inspector", "src"], ()), "Reset": (["inspector", "x"], ())}
    for r_ in ("Get", "GetTo", "Compare", "Length", "Capacity", "DeepEqual", "DeepEqualWithOptions", "TypeName"):
        tparams[r_] = ([], ())
    rewriting = []
    for i in sorted(fns):
        name = fns[i][0]
        if "Inspector)." not in name:
            continue
        meth = name.rsplit(").", 1)[-1]
        if meth not in tparams or (meth == "cpy" and "/testobj_ins." not in name):
            continue
        names, allowed = tparams[meth]
        bad = [q for q in ti.get(i, []) if q not in allowed]
        if bad:
            rewriting.append({"function": name, "parameters": names, "may_write_text_in_place_into_memory_of_parameters": bad,
                              "means": "the operation may rewrite bytes where they lie (an append into the spare capacity of, or a copy into, "
                                       "a []byte it finds in a value) instead of putting the text into the caller's buffer: those bytes may be "
                                       "a SHARED value's (Set assigns text by reference: ins.Set(private, v, path) with v from ins.Get(shared, path)), "
                                       "so a write operation on a private value writes the shared one"})
    return {"file": "coq/Gen/FootprintFacts.v", "functions": len(fns), "roots": len(roots), "reachable": len(seen),
            "changed_since_commit": changed, "reachable_functions_storing_to_globals": offenders,
            "copy_primitives_handing_out_their_source": handing_out,
            "functions_writing_through_a_parameter": len(sf),
            "read_operations_writing_what_they_read": writing_reads,
            "scratch_parameters_left_with_foreign_memory": foreign_keys,
            "generated_copies_storing_their_source": sharing_copies,
            "operations_rewriting_text_in_place": rewriting}


def post(tier, seed, cov, result):
    """Exploration under the race detector."""
    hdir = os.path.join(ROOT, "harness")
    env = dict(GOENV, CGO_ENABLED="1")
    cmd = ["go", "build", "-race", "-o", os.path.join(ROOT, "build", "racerun")]
    repo = os.environ.get("VERIF_REPO", "/repo")
    if repo != "/repo":
        cmd += ["-modfile=" + os.path.join(ROOT, ".cache", "alt.mod")]
    rc, out = sh(cmd + ["./cmd/racerun"], cwd=hdir, env=env, timeout=1800)
    runs = []
    problem = None
    if rc != 0:
        problem = "racerun does not build: " + out[-800:]
    else:
        rounds = 6 if tier == "quick" else 60
        for i in range(rounds):
            g, n = (8, 636) if i % 2 == 0 else (32, 192)
            p = subprocess.run([os.path.join(ROOT, "build", "racerun"), str(seed * 100 + i), str(g), str(n)],
                               stdout=subprocess.PIPE, stderr=subprocess.PIPE, env=dict(env, GORACE="halt_on_error=1 exitcode=66"))
            o = p.stdout.decode().strip()
            runs.append({"seed": seed * 100 + i, "goroutines": g, "ops_each": n, "out": o[:200], "rc": p.returncode})
            if p.returncode != 0:
                race = p.returncode == 66 or b"DATA RACE" in p.stderr
                problem = ("data race reported by the race detector" if race else
                           "a call returned something else than when run alone, a private value did not hold what its goroutine stored, "
                           "or a shared value is not what it was before the goroutines started (a read operation, or a write to a private value "
                           "copied from it or handed a reference into it, changed it)") + \
                          ": seed %d goroutines %d ops %d: %s %s" % (seed * 100 + i, g, n, o[:600], p.stderr.decode()[:1500])
                if race:
                    # the same schedule seed once more without halting at the first report: which results / stored texts it costs
                    q = subprocess.run([os.path.join(ROOT, "build", "racerun"), str(seed * 100 + i), str(g), str(n)],
                                       stdout=subprocess.PIPE, stderr=subprocess.DEVNULL, env=dict(env, GORACE="halt_on_error=0 exitcode=0"))
                    problem += "\n--- the same run not halted at the first report: " + q.stdout.decode().strip()[:800]
                break
    cov["race_runs"] = runs
    cov["evaluations"] = sum(r["goroutines"] * r["ops_each"] for r in runs)
    cov["distinct_nontrivial"] = len(runs)
    cov["samples"] = runs[:2]
    if problem:
        # a concrete failing schedule supersedes "the theorem no longer checks"
        result["lines"] = [l for l in result["lines"] if not l.endswith("no-failing-input-found")]
        path = os.path.join("replays", "C20-race.json")
        os.makedirs(os.path.join(ROOT, "replays"), exist_ok=True)
        static = {k: v for k, v in (cov.get("regenerated") or {}).items()
                  if k in ("reachable_functions_storing_to_globals", "copy_primitives_handing_out_their_source",
                           "read_operations_writing_what_they_read", "scratch_parameters_left_with_foreign_memory",
                           "generated_copies_storing_their_source", "operations_rewriting_text_in_place") and v}
        json.dump({"property": "C20", "problem": problem, "how": "build/racerun <seed> <goroutines> <ops>  (built with go build -race ./cmd/racerun)",
                   "what_the_extracted_facts_say": static},
                  open(os.path.join(ROOT, path), "w"), indent=1)
        result["lines"].insert(0, "VIOLATION property=C20 replay=%s" % path)
        result["violation"] = True


CHECK = Check(
    "C20", streams=[], pre=pre, post=post,
    rule=("(a) call graph, stores to package-level variables, 'a result may be derived from parameter p' and 'the function may write "
          "through parameter t what is derived from parameters from' facts re-extracted from "
          "/repo's current source (go/ssa, CHA), plus 'the function may write text IN PLACE into a byte array derived from parameter p' facts, and the theorem file re-checked against them; (b) exploration: 8 or 32 goroutines issue seeded random read operations on shared values "
          "through shared generated and built-in inspectors and write operations on private values with private buffers, built with "
          "-race; private values are both built in place and DERIVED from shared templates (Copy, CopyTo with an own buffer, CopyTo into "
          "an own Reset value; templates with text emptied in place - capacity kept -, empty strings, empty non-nil and nil slices and "
          "maps, filled values) and then written with Set / SetWithBuffer of int, uint, float, bool, string, bytes values, appends through "
          "Get references, Reset; every call's result is compared with the same goroutine running alone, and every private value must "
          "hold what its goroutine stored there (checked after each write and once more after all writers have finished). "
          "Third population: read operations with the goroutine's REUSED scratch state - one key buffer and one iterator for all its "
          "Loop calls (key asked for or not, read at once or kept until Iterate, break / continue), one result buffer for all GetTo, "
          "one bool for all Compare, one int for Length / Capacity, one never-emptied ByteBuffer for the writes to its own value, "
          "the key buffer also used for texts of its own - mixing loops over string-, named-string-, *string-keyed maps, int-, float-, "
          "pointer-keyed maps, slices of every declared form and the built-in containers of the SAME shared values (map keys on the "
          "heap, as decoded data). Every shared value of the run is compared, after the concurrent run and after the runs alone, with "
          "its rendering taken before the goroutines started, and every key its maps hand out must be found when looked up. "
          "Fourth population: for EVERY shipped inspector type (13), templates built by reflection over the type - every field, "
          "several elements per slice and map, every pointer (fields, slice elements, map values, map keys) with a cell of its own, "
          "a second template with some pointers nil -; each goroutine copies them (Copy, CopyTo, Reset+CopyTo) and writes to leaves "
          "chosen by walking its private value - half of the time behind a pointer -: Set, SetWithBuffer with the value's own "
          "buffer, Reset, the owner's direct writes through its own pointers (pointer keys included), while the others Get / Compare / "
          "DeepEqual / Copy the templates at their leaves' paths; a private value must be, through every pointer, what its "
          "goroutine left there, and the templates take part in the before / after comparison (which follows pointers). "
          "Fifth population: information flow from shared to private values BY REFERENCE - what Get returned on a shared value "
          "(the reference, or what it points to: []byte, *[]byte, string, *string, numbers; slices, maps, pointers where Set takes "
          "them) from every leaf / inner node of every shipped type and of [][]byte, []string, map[string]any, handed to Set / "
          "SetWithBuffer at a leaf of a private value of the same or of ANOTHER type (bytes -> bytes, bytes -> string, string -> bytes, "
          "...); the goroutine keeps writing the private value - Set / SetWithBuffer of scalars and texts at every leaf (the one "
          "holding the reference included), CopyTo into it from a private source with its own buffer (as it is, and after Reset), "
          "Reset, appends through Get references and writes in place where the memory is its own (decided natively: the byte "
          "arrays, string data and cells of all shared values are indexed before the start); a value holding a CONTAINER of a "
          "shared value is only read through, copied from, written outside of it, and given a container of its own before it is "
          "copied into / Reset (collections are reused in place, documented) - while the others read the shared values: a text leaf "
          "is replaced, never rewritten where it lies (race detector; same result as alone; private shadow; shared values unchanged). "
          "distinct = distinct (seed, goroutines) run."),
    assumptions=["the Go standard library, encoding/json and the runtime are outside the extracted graph (trusted)",
                 "CHA over-approximates interface and function-value calls; reflection-based calls do not occur in the module",
                 "data races below the granularity of a call cannot be exhibited by the model: they are the race detector's business",
                 "data-race-free programs are sequentially consistent (Go memory model)"],
    extra_trusted=["harness/cmd/footprint (x/tools go/ssa + CHA call graph) as the translator from /repo to FootprintFacts.v",
                   "the Go race detector"],
)

MANIFEST = {
    "category": "proof",
    "text": ("Partial. Proved in Rocq over facts regenerated from /repo on every run: no function reachable from a run-time API root "
             "stores to a package-level variable (closed-set argument, C20_runtime_no_global_write), and the interleaving theorem: a "
             "goroutine whose footprint nobody else writes computes, under every interleaving with any number of others, what it "
             "computes alone (C20_interleaving, induction over the merged sequence); over the extracted 'may write through parameter t' "
             "facts the read operations write through no parameter but their result / scratch parameters - never through the value read - "
             "and what Loop leaves in the caller's key buffer is memory of that buffer, never of the value looped over "
             "(C20_reads_never_write_what_they_read, C20_deep_equal_writes_nothing, C20_loop_keys_live_in_the_key_buffer); what the generated "
             "Copy / CopyTo / cpy store into the destination is derived from the destination and the buffer, never from the source - a "
             "private copy owns every cell its pointers reach (C20_copies_store_nothing_of_their_source); over the extracted 'may write "
             "text in place into a byte array derived from parameter p' facts no operation of any inspector rewrites the bytes it "
             "finds in a value - cpy / CopyTo / SetWithBuffer / Loop write text into the caller's buffer only, Set / Copy / Reset and "
             "the reads into no parameter - so a private value handed bytes of a shared one by reference can be written without the "
             "shared one being touched (C20_text_is_never_rewritten_in_place). Explored, not proved: race-detector runs of "
             "concurrent readers on shared values and writers on private values, results compared with sequential execution."),
    "note": ("The model cannot exhibit data races below call granularity (scheduler, memory model); that the generated methods' "
             "footprints are what the theorem assumes (reads: the value; writes: destination and buffer) rests on C12/C03/C06/C08 and on "
             "the extracted no-global-write fact. Trusted: the SSA extraction, CHA, the race detector. No axioms."),
    "technique": "Rocq theorem over a call graph regenerated from source + interleaving theorem; race-detector exploration",
}
