from lib.engine import Check
from lib.emit import emit_stream

CHECK = Check(
    "C08",
    streams=[emit_stream("c08", drv="c08")],
    rule=("generated inspectors of the model's emit units (quick: every third supported unit of the representative shape set + "
          "multi-field structs; thorough: every supported depth<=2 unit) x {Reset of every value variant; histories of "
          "Reset-then-CopyTo cycles on one destination with the byte buffer reset alongside: every single source, every ordered "
          "pair of value variants (sparse/dense/nil-heavy, growing and shrinking), seeded random histories of length 3-6, each "
          "from a zero and from a dense initial destination, buffer capacity 0 / 7 / 4096}; every input twice: raw dump (model "
          "correspondence) and normal form + native emptiness verdict after every Reset + sources re-read at the end (the "
          "property); distinct = distinct input text, all non-trivial."),
    assumptions=["an empty []byte prints the same whether nil or not (whether a bufferized empty byte slice is nil depends on the "
                 "buffer being nil at that moment, i.e. on map iteration order)",
                 "capacities are never observed; map entries are compared order-insensitively",
                 "value trees: sharing between source and destination is not expressible in the C08 model; it is observed natively "
                 "(sources re-read at the end of each history) and is the subject of C06"],
)

MANIFEST = {
    "category": "proof",
    "text": ("Rocq models of the code emitted by writeNodeReset and writeCopy/writeNodeCopyTo (structural recursion on the node tree) "
             "with theorems by induction on the node and on the list of sources: Reset leaves every reachable part empty; one "
             "Reset+CopyTo cycle on any destination yields the source up to nil/empty identification; hence every history of "
             "cycles. Correspondence: the extracted models predict, and the emptiness/normal-form spec judges, every Reset and "
             "every cycle history the real generated inspectors are run on."),
    "note": ("Trusted: Coq kernel, extraction, Go harness (reflection value builder, native emptiness and normal-form printers), Go "
             "compiler. The models are tied to the generator only through the generated inspectors' behaviour on the enumerated "
             "units. Eight generator defects found here were repaired by fix: commits (findings/C08.txt, findings/C06.txt). No axioms."),
    "technique": "Rocq proof by induction on the type tree and on histories + extracted-model correspondence on generated inspectors",
}
