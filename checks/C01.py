from lib.engine import Check
from lib.emit import emit_stream
from lib import srcfacts

CHECK = Check(
    "C01",
    pre=srcfacts.pre,
    streams=[emit_stream("c01", drv="c01")],
    rule=("generated inspectors of the model's emit units (quick: every third supported unit of the representative shape set + "
          "multi-field structs; thorough: every supported depth<=2 unit) x value variants (pointers nil/set, collections "
          "nil/empty/1/3 elements, nil elements, boundary scalars, empty and multi-byte strings) x every resolving path and at "
          "every position the unknown-field / absent-key / index -1,len,len+1,huge / unparsable / nil-pointer / past-scalar "
          "variants x {Get, GetTo with a sentinel in *buf}, argument form *T; observed: error name, what the returned any finally "
          "denotes after following pointers, and whether that object IS (same address and type) the object native reflection "
          "navigation reaches; distinct = distinct input text, all non-trivial."),
    assumptions=["slice index and integer/float/bool key segments are parsed like the code does (strconv.ParseInt/ParseUint base 0, "
                 "ParseFloat, ParseBool; integer keys wrapped to the key type)",
                 "pointer levels of the returned reference are not compared; an element that is itself a nil pointer may be "
                 "answered by a reference to that nil pointer or by nothing (generated code answers nothing for nil *scalar "
                 "elements of slices and maps, a nil pointer for nil pointer fields and nil *struct elements)",
                 "absent map key: 'the element type's zero value' is read as what native navigation m[k] (no comma-ok) reaches "
                 "from the zero value of the map's element type along the rest of the path; pointer-typed keys cannot be named "
                 "by a text and count as absent",
                 "paths that continue (through the types) past a scalar, string or bytes element are unspecified, also when a nil "
                 "pointer or an absent key precedes it",
                 "where a path denotes no element and a later key/index segment cannot be parsed for the type at its position, the "
                 "parse error is accepted as well (navigation may have ended before the segment is met)",
                 "argument forms T, **T, typed nil, untyped nil and foreign types belong to C12; only *T is run here (the header "
                 "model takes the argument form)"],
)

MANIFEST = {
    "category": "proof",
    "text": ("Rocq model of the code emitted by writeNode(modeGet) and the GetTo/Get header (structural recursion on the node tree; "
             "*buf modelled as a reference to a place: value, access path from the root, live or local copy) with theorems by "
             "induction on the node for all well-formed nodes, well-typed values and paths: Get meets the demand derived from "
             "native navigation (element / nothing / zero value of an absent key / parse error), never panics, errors only on "
             "unparsable segments, and returns the live element on paths of struct fields, non-nil pointers and struct-slice "
             "indices (C15 aliasing clause). Correspondence: the extracted model predicts, and the navigation spec judges, every "
             "case the real generated Get/GetTo are run on, including the address-identity bit."),
    "note": ("Trusted: Coq kernel, extraction, Go harness (reflection value builder, native navigation for the liveness bit), Go "
             "compiler. The model is tied to the generator only through the generated inspectors' behaviour on the enumerated "
             "units. No axioms."),
    "technique": "Rocq proof by induction on the type tree + extracted-model correspondence on generated inspectors",
}
