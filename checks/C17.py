from lib.engine import Check, Stream

CHECK = Check(
    "C17",
    streams=[Stream("strings", drv="c17", sub="c17",
                    nontrivial=lambda tags, inp: "empty" not in tags.split(",") and "foreign" not in tags and "nilpointer" not in tags,
                    descr="StringsInspector calls and call histories on one []string / [][]byte value")],
    rule=("values: every sequence of 0..2 (quick; 0..3 thorough) texts over {empty, ASCII 'ab', two-byte U+00E9} plus longer samples, as "
          "[]string and as [][]byte, by value and by pointer (with and without spare capacity), nil and empty-non-nil slices, typed nil "
          "pointers and a foreign type. Single calls per value: every path segment among the decimals of -2..len+2, the respellings "
          "+1/01/-0/00 and unparsable texts (empty, 'x', '1x', ' 1', out of int64 range, ...) x {Get, GetTo, Length, Capacity, Set and "
          "SetWithBuffer with empty/ASCII/multi-byte text given as string, *string, []byte, *[]byte (own and the other representation) "
          "or a non-text, Compare with all 6 operators (+ OpUnk/OpInc/OpDec) x operands empty/'ab'/the element itself/'b'}; plus per "
          "value: empty and two-segment paths, nil text pointers, Loop with/without keys and Break in round 0/1/5, DeepEqual and "
          "DeepEqualWithOptions against 13 operands (same content in the other representation/form, longer, shorter, changed, reversed, "
          "nil/empty in both representations, nil pointers, foreign), CopyTo from 7 sources and into 9 destinations (fresh, pre-filled "
          "with spare capacity, by value, nil pointer, foreign), Copy, Reset. Histories: every sequence of length 3 (quick; 4 thorough "
          "on *[]string) over a 14-call alphabet (Set incl. empty text and out of range, Compare, Get, Length, Capacity, Loop, "
          "DeepEqual, CopyTo in both directions, Reset) on pointer values, length 2 on by-value and initially empty values, plus seeded "
          "random histories up to length 15 whose indices follow the current length; the full element contents are re-read after every "
          "call. Long texts and long histories (storage handed out for one Set has to stay what it is while the element lives): on "
          "4-element values in both representations and forms, a text of 1023/1024/1025/4097 bytes (quick; 21 lengths from 255 to "
          "131073 thorough, 65537 in a shorter history in quick) stored at index 0 followed by 18 calls on the other elements (short, "
          "equally long, empty texts; Compare/Get/Loop/DeepEqual/CopyTo of the long element in between); 120..160 (up to 1000 "
          "thorough) Sets of 8/40/600-byte texts at indices 1..3, all different, the empty and multi-byte ones included, putting "
          "more than 1, 4 and 64 KiB into the sequence while index 0 keeps what the first Set stored, with reads, a CopyTo in each "
          "direction in between; 4 (60) random histories of 100..200 calls, mostly Sets with texts of 0..4097 bytes. Each through "
          "Set's own buffer, SetWithBuffer with a new caller buffer and with a recycled one (used for 100000 bytes of other data and "
          "Reset before the first call). Every Get result (the string / slice header, sharing the element's bytes) is kept by the "
          "runner and re-read after every later call. Texts are printed in hex with runs of 8 or more equal bytes as (hh*n). "
          "Every case is run twice: mode A compares with the specification computed from Spec/StringsSpec.v on the abstract "
          "sequence (alternatives where the property leaves a choice, '*' where it is silent: nil pointers, foreign types, paths that "
          "are not one segment, non-text or nil operands, the 3 non-comparison operators), mode D compares every detail the model "
          "predicts (which error, reference kinds, nil-ness, element and outer capacities). Aliasing is observed natively from address "
          "ranges. Non-trivial = the value is a non-empty sequence; distinct = distinct input string."),
    assumptions=["strconv.Atoi is the validated model of Base/Strconv.v (value or error only)",
                 "allocation identity: two elements share bytes only if they live in the same allocation; distinct byte ranges "
                 "handed out by ByteBuffer never overlap (property C07, fixed in /repo 775d809)",
                 "the capacity of a slice that append had to grow is not predicted (printed as '?' / only 'capacity >= length' is compared)",
                 "amd64; whole-sequence Length/Capacity with an empty sequence, Capacity of string elements and error-or-not for "
                 "unparsable segments are accepted either way (the property does not say)"],
)

MANIFEST = {
    "category": "proof",
    "text": ("Rocq theorems over a faithful Gallina model of every StringsInspector method (Model/Strings.v) against the abstract sequence "
             "`list bytes` (Spec/StringsSpec.v), for all sequences, both representations, both argument forms, all path segments: "
             "C17_get/compare/length/capacity_addresses (an index in range addresses exactly that element; Compare stores the native "
             "byte-wise comparison for each of the 6 operators), C17_set_exact (element i is replaced by a fresh buffered copy, the empty "
             "text included; form, representation, nil-ness, capacity, length and every other element are untouched), "
             "C17_out_of_range_noop and C17_unparsable_noop (nothing stored, nothing changed), C17_loop_order_keys / C17_loop_keys_parse / "
             "C17_loop_break (all elements in order with decimal keys; atoi(decimal j) = j for every j < 2^63), C17_deq_iff (true iff the "
             "wrapped sequences are equal, two empty ones included), C17_copyto_appends_fresh / C17_copy_equal (appended copies live in "
             "fresh pairwise distinct allocations), C17_reset, and C17_histories: for every list of calls the model simulates the abstract "
             "sequence step by step (induction over the operation list), and C17_histories_keep_storage: along any history every element "
             "is an element that was there before, unchanged, or lives in an allocation handed out during the history (stored bytes "
             "are never rewritten, whatever the number of calls or the length of the texts). The three defects of the pinned code (Set ignores the empty "
             "text, two empty sequences unequal, Compare stores a result for an index >= len) are C17_refuted_* theorems on the `pinned` "
             "version of the model, with the full statements proved on the sub-domains non-empty text / a non-empty operand / negative "
             "index; they were repaired in /repo by three fix commits and the `fixed` model is what the correspondence stream runs against "
             "the real StringsInspector."),
    "note": ("Trusted: Coq kernel, extraction (ExtrOcamlBasic+ExtrOcamlString), Go harness (value construction, canonical printers, "
             "address-range aliasing oracle). Modelled not verified: strings.go, the slice of strconv.Atoi in Base/Strconv.v, Go's append "
             "growth (capacity after growth is not predicted), ByteBuffer hand-outs as fresh allocations (C07). Nil pointers, foreign "
             "types, nil text pointers and multi-segment paths are modelled (a nil pointer reads as the nil slice and is refused by the "
             "writers since /repo d76be51; the panics of the code before are kept behind the model's v_nil_ptr flag) and compared in mode D "
             "but the property is silent about them. No axioms."),
    "technique": "Rocq refinement proof (model vs abstract sequence, induction over operation histories) + extracted-model correspondence",
}
