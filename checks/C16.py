from lib.engine import Check, Stream

CHECK = Check(
    "C16",
    streams=[
        Stream("static", drv="c16", sub="c16",
               nontrivial=lambda tags, inp: not tags.startswith(("typename", "unmarshal", "set", "setbuf", "loop")),
               descr="one StaticInspector method call per case"),
        Stream("strconv", drv="strconv", sub="strconv", descr="Base/Strconv.v against strconv (operand parsing; fixed texts, every spelling of chosen numbers, random texts)"),
        Stream("floats", drv="floats", sub="floats", descr="Base/Floats.v against strconv.ParseFloat / float64 arithmetic"),
    ],
    rule=("every method of StaticInspector on operands of 13 scalar kinds (bool, 10 integer kinds, float32, float64) + string + []byte, "
          "each by value, by pointer and as typed nil pointer, plus 12 foreign types (untyped nil, struct, slices, map, pointer to "
          "pointer, named int / []byte, uintptr, complex) and a typed nil foreign pointer. Enumerated: Get/GetTo/Copy/Length/Capacity/"
          "Reset on every operand; Compare on every operand x 9 operators (the 6 comparisons + OpUnk/OpInc/OpDec) x parsable and "
          "unparsable operand texts of the operand's family (boundaries, base prefixes, underscores, overflow, garbage, the value itself "
          "and its neighbours) x result preset false/true; every integer kind by value and by pointer x every base-0 spelling of its own "
          "value (Gen/Spellings.v: leading zero = octal, zero-padded decimal such as 015/019, 0x/0o/0b in both cases, underscores in "
          "legal and illegal places, the three signs, blanks, zero padding to 18/19/20 characters, one digit more; values 15, +-19 and "
          "18/19/20-digit numbers around the 64-bit bounds; ==, <, >= and stale results in the quick tier, every operator in the "
          "thorough one); DeepEqual on every ordered pair of operands, both argument orders per case; "
          "CopyTo on every source x destinations (right pointer, nil pointer, by value, wrong kind, foreign) x buffer capacities. "
          "Values: kind boundaries (min, 0, 1, max; floats 0, 1, 1.4, 1.0005, NaN, Inf, 2^63, -1.4; texts empty/short), more in the "
          "thorough tier, plus seeded random values (integers over the full range, floats across 2^63/2^64 and the tolerance, related "
          "right operands of the same family). Non-trivial = every case except TypeName/Unmarshal/Set/SetWithBuffer/Loop; distinct = "
          "distinct input string. All calls run in a child process; a stack overflow is observed as DIVERGE."),
    assumptions=["amd64, gc 1.23: int/uint are 64 bit; float->integer conversion of out-of-range values and NaN is the CVTTSD2SQ sequence "
                 "(result 2^63 as bit pattern), modelled in Model/Static.v f2i64/f2u64 and validated by this stream",
                 "a float32 operand is compared after exact widening to float64 with the ParseFloat(…,64) operand (Go's mixed-width "
                 "semantics); ParseFloat is modelled on the plain decimal grammar (no hex floats, no underscores) and the generator "
                 "stays inside it",
                 "out-parameters (*result, *buf) and the buffer are non-nil, as the signatures demand; typed nil source pointers are "
                 "modelled (Panic NilDeref where the code dereferences) but the property says nothing about them (spec *)",
                 "append growth for Copy and the buffer is an oracle (extra >= 0 in the theorems); capacities of copies are not compared",
                 "encoding/json behind Unmarshal is an oracle"],
)

MANIFEST = {
    "category": "proof",
    "text": ("Rocq theorems C16_get_identity, C16_compare_native, C16_deq_sym, C16_deq_family, C16_copy_fresh, C16_copyto_fresh, "
             "C16_lencap, C16_reset_zeroes, C16_foreign over a case-by-case Gallina transcription of every type switch of static.go: for "
             "all operands of the 15 kinds by value or pointer, all integers in range, all spec_float values, all strings, all operators and "
             "operand texts. The pre-fix code is kept in the model behind a revision record; C16_refuted_* show what it violated "
             "(unbounded recursion for every fuel, order-dependent int/float equality, Reset of *string/*[]byte, unequal infinities). "
             "The model is tied to /repo by running the extracted model and the real StaticInspector on the same calls."),
    "note": ("Trusted: Coq kernel, extraction (ExtrOcamlBasic+ExtrOcamlString), Go harness. Modelled not verified: static.go, "
             "strconv.ParseInt/ParseUint/ParseFloat/ParseBool slices of Base (validated by the strconv and floats streams), amd64 "
             "float->int conversion. No axioms."),
    "technique": "Rocq decision-table proofs over a transcribed kind switch + extracted-model correspondence",
}
