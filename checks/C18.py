from lib.engine import Check, Stream

CHECK = Check(
    "C18",
    streams=[Stream("stranymap", drv="c18", sub="c18",
                    nontrivial=lambda tags, inp: not tags.startswith("silent") and ",empty," not in tags,
                    descr="one map[string]any tree and a history of StringAnyMapInspector operations, observed after every step; "
                          "and several trees / caller-held nodes sharing nested map objects, every holder dumped after every step")],
    rule=("trees: every leaf kind (nil, bool, ten integer kinds, string, []byte with spare capacity) under each of the three holding "
          "forms (map, *map, **map), every pair of forms over two levels, empty maps, the shape of /repo's own test value in three "
          "form assignments, a depth-4 chain through all forms, the six nil holders at the root / one / two levels down, plus seeded "
          "random trees up to depth 4 (with and without nil holders). Per tree: every node path and, below every node, an absent key "
          "and an absent key followed by a further step (through a leaf these are the non-map steps), the empty path; on each path "
          "Get, Length, Capacity, Loop (no break, break at the 1st and 2nd call), Compare with 17 operator/operand pairs; Set of ten "
          "values (scalars, string, []byte, empty text, nil, nested maps; a stride of them in the quick tier) followed by reading the "
          "path back and dumping the whole tree; Copy then Reset of the copy; Reset then Set; CopyTo into empty / populated "
          "destinations, pointers to nil maps and (correspondence only) nil pointers; DeepEqual. Seeded random histories (Set/Get/Length/Capacity/Compare/Loop/Copy/CopyTo/Reset, up to 12 steps, "
          "whole tree dumped after every step). Memory sharing of Copy/CopyTo results and of stored strings/bytes is observed "
          "natively from address ranges. SHARED nested maps (tag share): two trees (the nine form pairs over two levels, /repo's test "
          "shape, the depth-4 chain; every nested-map path of the first) and holders appended by Get / Copy / re-wrapping a map in "
          "another holding form; six scenario families (nested map moved into the other tree with Set - directly or below a created "
          "chain - then Reset of the source / of the other tree / of the moved map, writes through either tree, CopyTo and Copy "
          "followed by resets and writes on both sides, CopyTo over a tree whose old nested map is still held) plus seeded random "
          "holder histories (Get / Set of a holder or a value / Length / Reset / Copy / CopyTo / re-wrap, 3-8 steps, cycles and "
          "CopyTo into a part of its own source are not generated); after EVERY step EVERY holder is dumped (keys sorted, no "
          "addresses), model = Model/StrAnyMapHeap.v, demand = Spec/StrAnyMapStore.v. "
          "Non-trivial = has a non-empty path or a state change; distinct = distinct input string."),
    assumptions=["single-tree cases: values are trees, no map is reachable twice (the harness builds them so); the share cases lift this: "
                 "map objects have identity (a store of objects), any number of trees and holders may reach one object",
                 "cyclic values are not generated (the theorems of the heap model hold for them, the Go code need not terminate); the harness "
                 "prints a map that contains itself as {CYCLE} and abandons the case",
                 "CopyTo whose destination object is reachable from its source is not generated (the result depends on map iteration order)",
                 "in the heap model pointer cells of *map / **map have no identity (stranymap.go writes one only to replace a nil map, and "
                 "nil holders are not part of that model); nil holders and string / byte memory are left to the tree model",
                 "map iteration order is not observed: Loop results are compared as sorted sets, under Break as count + membership",
                 "Get's (nil, nil) for a stored nil leaf is indistinguishable from 'no value' and printed alike",
                 "observations print a nil map / nil pointer holder as the empty map of its form (the specification's abstraction)",
                 "floats, *string and *[]byte leaves are outside the generated and modelled domain; amd64"],
)

MANIFEST = {
    "category": "proof",
    "text": ("Rocq theorems over ALL map[string]any trees (structural induction, no depth bound), all key paths and all operation "
             "histories, for an executable model of every method of StringAnyMapInspector: C18_get/length/capacity/compare/loop_"
             "follows_path (each reading operation reports exactly what the specification says about the node the path denotes), "
             "C18_absent_no_error, C18_non_map_unsupported, C18_set_exact (Set refines the specification's tset: creates or replaces "
             "the leaf, creates intermediate maps, errors leave the tree untouched) with C18_set_hits / C18_set_frame (nothing off the "
             "path changes) and C18_set_copies_into_buffer, C18_copy_equal / C18_copy_fresh / C18_copyto_equal_fresh / "
             "C18_copyto_any_source (nil sources, pointers to nil maps), "
             "C18_reset_empties / C18_reset_in_place, C18_history (fold_left over operation lists against the abstract tree), "
             "and over stores of map OBJECTS shared between trees and holders (Model/StrAnyMapHeap.v, any store, cyclic ones "
             "included): C18_share_reset_exact / _empties_addressed / _frame / _holders (Reset empties the object its argument "
             "holds and no other, so every holder that does not reach it sees the same tree), C18_share_set_frame / _holders "
             "(Set writes only the object the path addresses) and C18_share_set_exact (Set is the specification's s_set when the "
             "path meets no object twice), C18_share_copyto_frame / _holders / _fresh, C18_share_copy_frame / _holders / _fresh "
             "(copies change nothing that existed and reach nothing that existed), "
             "C18_*_never_panic. C18_refuted_* give the witnesses for the six defects repaired by fix commits (nil pointer "
             "dereference, Capacity ending in Length, Reset of a by-value map, Set / CopyTo through a pointer to a nil map, CopyTo "
             "from a nil map) and for the open finding (Set reaching a nil map held by value or a nil pointer). The model "
             "is tied to the code by running the extracted model and the real inspector on the same trees and histories."),
    "note": ("Trusted: Coq kernel, extraction (ExtrOcamlBasic+ExtrOcamlString), Go harness (tree construction, canonical printer, "
             "address-range sharing test). Modelled not verified: stranymap.go, the Compare arm of static.go for the generated leaf "
             "kinds, strconv parsing (Base/Strconv.v, validated by its own stream). Set exactness assumes that every nil holder in the "
             "tree is a non-nil pointer to a nil map (settable; C18_refuted_set_nil_holder shows why). No axioms."),
    "technique": "Rocq refinement proof (model vs. abstract-tree specification) by induction over paths, trees and histories + extracted-model correspondence",
}
