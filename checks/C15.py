import glob
import json
import os
import re

from lib.engine import Check, ROOT, CACHE
from lib.emit import emit_stream

ALLOWED = {"github.com/koykov/inspector", "encoding/json", "strconv", "bytes", "github.com/koykov/byteconv", "github.com/koykov/x2bytes"}


def imports_of(src):
    m = re.search(r"^import \((.*?)^\)", src, re.S | re.M)
    return re.findall(r'"([^"]+)"', m.group(1)) if m else re.findall(r'^import "([^"]+)"', src, re.M)


def reflective_identifiers(repo):
    """exported top-level names of the library declared in files that import reflect (reflect.go: ReflectInspector)"""
    names = set()
    for f in glob.glob(os.path.join(repo, "*.go")):
        if f.endswith("_test.go"):
            continue
        src = open(f).read()
        if "reflect" in imports_of(src):
            names.update(re.findall(r"^(?:type|var|const|func)\s+([A-Z]\w*)", src, re.M))
    return names


def post(tier, seed, cov, result):
    """no reflection: the import list of every generated file (runner units and the shipped testobj_ins), and the text of
    every generated file: no use of package reflect, no mention of a name the library declares in a file that imports
    reflect (inspector.ReflectInspector), no "reflect" literal (the registry name of the reflection based inspector)"""
    repo = os.environ.get("VERIF_REPO", "/repo")
    refl = reflective_identifiers(repo)
    cov["library_names_built_on_reflect"] = sorted(refl)
    # the runner this run used (lib/emit.py keeps one per tier, named <tier>-<hash>): a runner another tier left behind may
    # have been generated from another tree (VERIF_REPO)
    mine = ("0" if tier == "quick" else "1") + "-*"
    files = glob.glob(os.path.join(CACHE, "emit", mine, "src", "gen", "*_ins", "*_ins.go")) + glob.glob(os.path.join(repo, "testobj_ins", "*.go"))
    bad = []
    for f in files:
        src = open(f).read()
        imps = imports_of(src)
        pkg = re.search(r"^// source: (\S+)", src, re.M)
        own = pkg.group(1) if pkg else ""
        for i in imps:
            if i in ALLOWED or i == own or i.endswith("_ins") or i == "github.com/koykov/inspector/testobj":
                continue
            bad.append("%s imports %s" % (os.path.relpath(f, ROOT) if f.startswith(ROOT) else f, i))
        if re.search(r"\breflect\.", src):
            bad.append("%s uses reflect" % f)
        if re.search(r'"reflect"', src):
            bad.append('%s mentions "reflect"' % f)
        for name in sorted(set(re.findall(r"\binspector\.([A-Z]\w*)", src)) & refl):
            bad.append("%s uses inspector.%s (declared in a file of the library that imports reflect)" % (f, name))
    cov["generated_files_scanned_for_imports"] = len(files)
    cov["import_violations"] = bad[:20]
    if (bad or not files) and not result["violation"]:
        path = os.path.join("replays", "C15-imports.json")
        os.makedirs(os.path.join(ROOT, "replays"), exist_ok=True)
        json.dump({"property": "C15", "problem": bad[:50] or "no generated file found to scan"}, open(os.path.join(ROOT, path), "w"), indent=1)
        result["lines"].insert(0, "VIOLATION property=C15 replay=%s" % path)
        result["violation"] = True


CHECK = Check(
    "C15",
    # third sentence of the property (the reference GetTo returns is the address of the live element): the cases of the Get
    # model's stream that end on such a path (tag mustlive) - prediction by Model/Get.v, demand by Spec/GetSpec.v, theorems
    # C15_alias_is_live / C15_alias_is_the_element; the harness compares the returned address with native navigation
    streams=[emit_stream("c15", drv="c15"),
             emit_stream("c01", drv="c01", select=lambda tags: "mustlive" in tags.split(","),
                         descr="Get/GetTo on paths of struct fields, non-nil pointers and struct-slice indices: the live element")],
    post=post,
    rule=("every path made only of struct fields, non-nil pointers and struct-slice indices (Spec/GetSpec.v live_loc) on every value "
          "variant of every emit unit: testing.AllocsPerRun of GetTo, Compare, Length, Capacity, DeepEqual and SetWithBuffer (own-type "
          "value, pre-sized buffer) at scalar/string/bytes leaves and of Loop at slices, each made with the object handed in as *T and as **T "
          "(both pointer forms the generated cast accepts) - the demand is 0 in both; by value (T, the third accepted form: the property "
          "is silent, spec *) the reads are measured on the first element and slice case of every unit and predicted (GetTo 1: the "
          "reference points into the copy; the others 0); what generated code HANDS OUT: for every unit and every place of the "
          "emitted Loop that iterates a map or a non-byte slice (roots, fields, map entries and slice elements that are collections "
          "themselves; element kinds scalar, string, struct, pointers to them, nested map, nested slice; quick tier: scalar/string "
          "element sites of the single-shape units thinned to every second) Loop runs over a populated value handed in by value, as "
          "*T and as **T and the dynamic Go types of all inspectors passed to Iterator.SetKey/SetVal are classified - a generated "
          "<X>Inspector or one of the library's inspectors that do without reflect (Static, Strings, StringAnyMap) is demanded, the "
          "model column is the inspector name in the trace of Model/Loop.v; the import lists and the text of all "
          "generated files are scanned (no reflect import or use, no \"reflect\" literal, no name the library declares in a file "
          "that imports reflect, i.e. inspector.ReflectInspector); liveness of the returned reference is observed in the C01 stream. distinct = "
          "distinct input."),
    assumptions=["allocation is decided by the Go compiler's escape analysis: measured on these cases, not proved",
                 "the assigned value is boxed once outside the measured call; the path slice is built outside the call",
                 "a by-value object is boxed once outside the measured call; SetWithBuffer on a by-value object is not measured"],
)

MANIFEST = {
    "category": "proof",
    "text": ("Partial. Proved in Rocq (with C01's Get model): the reference GetTo returns along struct fields, non-nil pointers and "
             "struct-slice indices is the live element at the access path native navigation reaches. Validated per generated file: "
             "imports are within the emitter's finite import set, which excludes reflect, and the text mentions no reflection based "
             "name of the library. Observed per Loop site of every emit unit: the inspectors handed to the iterator are generated ones "
             "or the library's reflection free ones (predicted by the Loop model of C09). Measured, not proved: zero allocations per "
             "call (AllocsPerRun) for GetTo/Compare/Length/Capacity/DeepEqual/slice Loop/SetWithBuffer on every enumerated live path."),
    "note": "Escape analysis has no model here; the allocation clause is exploration. No axioms.",
    "technique": "Rocq theorem on the Get model (aliasing) + per-file import validation + measured allocation counts",
}
