from lib.engine import Check, Stream

CHECK = Check(
    "C19",
    streams=[Stream("c19", drv="c19", sub="c19",
                    nontrivial=lambda tags, inp: True,
                    descr="destination kind x source kind x form x value x buffer matrix of Assign/AssignBuf")],
    rule="",
)
MANIFEST = {"category": "proof", "text": "", "note": "", "technique": ""}
