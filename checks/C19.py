from lib.engine import Check, Stream

CHECK = Check(
    "C19",
    streams=[
        Stream("c19", drv="c19", sub="c19",
               nontrivial=lambda tags, inp: "d:foreign" not in tags and "s:foreign" not in tags,
               descr="destination kind x source kind x form x value x buffer matrix of Assign / AssignBuf, and histories of calls over reused source / destination objects"),
        # the model of Assign rests on these two validated slices of strconv
        Stream("strconv", drv="strconv", sub="strconv", descr="validation of Base/Strconv.v (ParseInt/ParseUint, the integer recognisers)"),
        Stream("floats", drv="floats", sub="floats", descr="validation of Base/Floats.v (ParseFloat, float32 conversion, AppendFloat 'f' -1 64 on the exact-decimal domain)"),
    ],
    rule=("one real call of inspector.Assign (no buffer) / inspector.AssignBuf (real inspector.ByteBuffer) per case. Full matrix: every "
          "destination (*bool, the ten integer pointer types, *float32, *float64, *string, *[]byte, and foreign destinations: pointer to "
          "struct, non-pointer value, nil interface) x every source kind (bool, ten integer types, float32, float64, string, []byte) in "
          "value form, pointer form and as typed nil pointer, plus foreign sources (struct, nil interface, named int, pointer to struct, "
          "uintptr, **int) x boundary values (per integer kind min/max/-1/0/1 and every power-of-two boundary that fits, so that every "
          "narrowing wraps; floats: zeros incl. -0, fractions, 2^52, 2^53-1, values that round/overflow/underflow in float32, NaN, +-Inf) x "
          "texts (signed/unsigned/leading zeros/each integer boundary +-1/beyond 64 bit/fraction/exponent/leading and trailing dot/"
          "overflowing and underflowing exponents/hex, binary, octal, underscore forms/blanks/newline/garbage/empty/true,false and "
          "case variants/inf,nan words/non-ASCII digits) x {no buffer, empty buffer, pre-filled buffer that must grow} (thorough: also "
          "buffers with spare capacity) x non-empty previous destination content (bytes destinations tight and roomy, so both the "
          "in-place and the reallocating branch run). Non-text destinations rotate through the buffer variants, text destinations take "
          "all of them. Plus seeded random integers of every kind, dyadic floats, numerals and garbage texts through the same matrix "
          "(60 values quick, 1500 thorough). Observed natively: ok, the destination's value (floats as sign/odd mantissa/binary "
          "exponent), the ownership class of a stored text computed from pointers (inside the buffer at which offset / the source's "
          "bytes / the old destination's backing array / new memory), the buffer content. Float sources meet text destinations only "
          "inside the exact-decimal domain of Floats.render_float (finite binary fractions with at most 15 significant decimal digits, "
          "plus zeros, NaN, Inf); cases outside it are not generated. spec = both readings of Spec/AssignSpec.v where the property text "
          "is silent (numeral outside the destination type's range, '+5' into unsigned, '1.' into float: tag 'silent'), every admissible "
          "owner class. Plus HISTORIES of two or three calls over objects that come back (tag 'hist'; Model/AssignSeq.v = the single call "
          "iterated on the values present at each step): ONE source object serving every step with other content - a []byte rewritten "
          "in place (value form and *[]byte over the same array), a string that is the zero-copy view of such an array, one *string "
          "pointed at other text, one *T (bool, ten integer kinds, float32, float64) holding another value - with texts of one length "
          "(numbers of every family, garbage, numerals the neighbouring family refuses; every ordered pair of neighbours, both "
          "directions), texts that grow and shrink, true/false words; x every destination kind, fresh per step, of another kind at "
          "every step, or ONE destination receiving every step (also with sources of every kind built anew, a refusal in the middle "
          "keeping what the step before stored); one buffer throughout. Observed per step: ok, destination, buffer content; each "
          "step must give what the same call gives with freshly built objects (spec = Spec/AssignSeqSpec.v seq_allowed). A reused text "
          "source is not combined with a reused text destination (the destination would alias the slice being rewritten). "
          "Non-trivial = neither side foreign; distinct = distinct input string."),
    assumptions=["amd64: int and uint are 64 bit",
                 "float rendering (AppendFloat 'f' -1 64) is modelled on the exact-decimal domain only; the theorems carry it as the "
                 "hypothesis `rendered rf src` and the generator stays inside the domain",
                 "a float32 destination receives float32(ParseFloat(text, 64)): the specification reads 'parsed' as correctly rounded to "
                 "float64 followed by Go's float32 conversion (double rounding on rare ties is not a finding under this reading)",
                 "text -> text: the property text is read as silent on whether the destination shares the source's bytes (the code stores "
                 "zero-copy aliases, also when a buffer is given)",
                 "destination pointers are non-nil (the property speaks of 'a pointer destination'); typed nil SOURCE pointers are in scope"],
)

MANIFEST = {
    "category": "proof",
    "text": ("Rocq theorems over an executable Gallina model of AssignBuf (the six registered functions in registry order, every case of every "
             "type switch, the x2bytes.ToBytes chain, who owns the stored bytes): C19_matrix (for all 16 destination kinds + foreign x all 16 "
             "source kinds in value and pointer form + foreign x all values x all buffers: result = (true, canonical conversion) or "
             "(false, destination unchanged), exactly as the conversion table written from the property text says, wherever the text decides), "
             "C19_two_readings (on the inputs where the text is silent the code realises one of the two stated readings), C19_forms_equal, "
             "C19_replaces, C19_untouched_on_failure, C19_buffered_lives_in_buffer, C19_owner_allowed; arithmetic over all Z / all spec_float / "
             "all strings (the regexp recognisers + strconv parsers are proved equal to the specification's decimal grammar for every string). "
             "C19_history: every history of calls of any length (destinations fresh or one reused destination, one buffer) is one the "
             "specification admits step by step - the model is a function of the values the source and destination hold at each call, "
             "and the stream checks that the code is too when source/destination objects are reused and rewritten in place. "
             "C19_refuted_nil_source + C19_nil_source: typed nil pointer sources panic (open finding). C19_refuted_str_appends: the pinned "
             "commit appended to the old string (fixed). Tied to /repo by running the extracted model and the real Assign/AssignBuf on the "
             "full kind x kind x form x value x buffer matrix, incl. natively computed ownership classes, and on 2-3 call histories over "
             "reused source objects (rewritten in place) and reused destinations."),
    "note": ("Trusted: Coq kernel, extraction (ExtrOcamlBasic+ExtrOcamlString), Go harness. Modelled not verified: assign.go, assign_builtin.go, "
             "x2bytes v1.0.2, byteconv S2B/B2S, the slices of strconv in Base/Strconv.v and Base/Floats.v (validated by their own streams, run "
             "here too). Float rendering only on the exact-decimal domain (explicit hypothesis). No axioms."),
    "technique": "Rocq decision-table proof by case analysis over kinds + arithmetic over Z/SpecFloat/strings + extracted-model correspondence",
}
