from lib.engine import Check
from lib.emit import emit_stream

CHECK = Check(
    "C12",
    streams=[emit_stream("c12", drv="c12")],
    rule=("generated inspectors of the model's emit units x value variants x selected paths (empty, resolving, first of every "
          "failing class) x {Get, GetTo, Compare x2, Loop, Length, Capacity} grouped over the forms T, *T, **T with a dump of "
          "every argument before and after every call; per value DeepEqual pairs, Copy, CopyTo's source grouped the same way, "
          "Reset and CopyTo's destination by value and through *T / **T; per unit every operation with a foreign argument "
          "and with the nil forms; distinct = distinct input text, all non-trivial."),
    assumptions=[],
)

MANIFEST = {
    "category": "proof",
    "text": "",
    "note": "",
    "technique": "Rocq proof + extracted-model correspondence on generated inspectors",
}
