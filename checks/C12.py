from lib.engine import Check
from lib.emit import emit_stream

CHECK = Check(
    "C12",
    streams=[emit_stream("c12", drv="c12")],
    rule=("generated inspectors of the model's emit units (quick: every third supported unit of the representative shape set + "
          "multi-field structs; thorough: every supported depth<=2 unit) x value variants (pointers nil/set, collections "
          "nil/empty/1/3 elements, boundary scalars) x selected paths (the empty path, up to three resolving paths, and the first "
          "path of every failing class: unknown field, absent key, unparsable segment, index -1/len/len+1/huge, nil pointer on "
          "the way, past a scalar) x {Get, GetTo, Compare (two operand/operator pairs), Loop (scripted iterator), Length, "
          "Capacity}: ONE grouped case runs every operation by value, by pointer and by pointer-to-pointer through a proxy "
          "inspector that dumps every argument before and after every call (observation: agree bits per operation, "
          "argument-unchanged bit per form; Get/GetTo compared without the liveness bit), plus the same operations once by "
          "value (every case) and by pointer-to-pointer (every third) against the model's answer in that form; per value: "
          "DeepEqual (independent copy, same object, two one-position mutations; the other operand's form rotating), Copy, "
          "CopyTo's source (destination *T zero / **T emptied) grouped and single; Reset and CopyTo's destination by value "
          "(must-be-pointer, dump unchanged; source in each of the three forms) and through *T / **T; per unit: every "
          "operation with a foreign argument in every argument position (demand: a refusal the signature can express, dump of "
          "all arguments unchanged) and with a typed-nil *T, a **T to nil, a nil **T and the nil interface; per value with a "
          "non-empty collection (and the most populated value with long string keys): two HISTORIES of reads on ONE object with "
          "ONE caller-owned key buffer handed to every Loop - (a) every collection of the object looped forwards and backwards "
          "(keys wanted), then Get and GetTo into the collections; (b) Loop over a collection, Loop with the same buffer over "
          "ANOTHER object (a partner unit whose keys are rendered as index / signed / unsigned / float, or a second object of "
          "the same type), the first Loop again, Get - each grouped (three forms + every step alone on fresh objects; "
          "observation: per step and form, answer inside the history = answer alone, every object of the history dumps as "
          "before the first step and every map key is still found by a lookup) and once in one form against the model's "
          "answers (Model/ApiSeq.brun); per value in which a GetTo stores an answer: one HISTORY of GetTo calls that share ONE "
          "caller-owned RESULT buffer (*any, the caller's sentinel in it at the start) - answers of the same type one after "
          "the other (first a reference INTO the object: a struct field, then references to local copies: a map value, an "
          "element of builtin type; up to two types), one call that stores nothing in between, then a reference into the "
          "object followed by the same type out of a SECOND object of the same type, out of a PARTNER object of another "
          "unit, and a reference into a partner followed by the same type out of the object - grouped (three forms + every "
          "step alone; a step that stores nothing alone must leave in the buffer the very pointer it found there; every "
          "object of the history dumped after every step) and once in one form against the model's answers (what the "
          "buffer denotes after every step); distinct = distinct input text, all non-trivial."),
    assumptions=["'never modifies the value it reads' is observed as: the canonical dump (no capacities, no addresses) of every "
                 "argument is the same before and after every call; writes into spare capacity or that restore the old "
                 "content would not be seen",
                 "the by-value root object is a copy: a Get/GetTo reference into it is compared by what it denotes, the "
                 "liveness bit is predicted per form by the model",
                 "the model's purity statement is structural (Model/Api.exec returns the argument for every read call): that "
                 "the generated code has no store through a read argument is established by the stream, not by a theorem",
                 "Set by value (writes into a copy; nested maps and slices are shared) is outside the property and not run",
                 "histories: strings of the harness-built objects are private heap copies (a store into a key is an observable "
                 "change, not a fault); the caller's KEY buffer is not part of the model's state (the Loop models never read the "
                 "key buffer): that the code neither depends on old key-buffer content nor lets that buffer share memory with "
                 "an object is observed by the history cases, for the histories enumerated; the caller's RESULT buffer is part "
                 "of the state (Model/ApiSeq.brun): its content is a reference that records the value of its place when it was "
                 "made, faithful because no step of a read history writes (C12_read_history_buffer); pointer levels of the "
                 "stored reference are not modelled"],
)

MANIFEST = {
    "category": "proof",
    "text": ("Rocq theorems over the models of all generated methods under one signature (Model/Api.exec: answer + argument "
             "afterwards), for every node, value, path, operand, iterator script and option set without premises: the answers by "
             "value, by pointer and by pointer-to-pointer coincide (Get/GetTo: same error and a reference to the same value at "
             "the same access path, by induction on the node tree; a by-value reference is a copy exactly inside the copied root "
             "object); read calls return the argument unchanged and a changed argument implies Reset/Set/CopyTo-destination; "
             "Reset and CopyTo's destination by value give the must-be-pointer error and change nothing; a foreign argument is "
             "refused per operation (no effect / unsupported-type error / false) in every argument position; nil pointer "
             "arguments are handled like the nil interface and no header panics (after four fix: commits); a history of read "
             "calls of any length over any store of objects leaves every object as it was, every step answers what the call "
             "answers alone, and the answers coincide in the three forms - also when the GetTo steps of the history share one "
             "caller-owned result buffer that holds the answer of the step before (the emitted GetTo only ever overwrites "
             "*buf, by induction on the node tree: with any buffer content it answers what it answers with an empty buffer, "
             "nothing is read from or stored through what the buffer holds). Correspondence: every "
             "grouped case runs the real generated methods in the three forms and compares answers and argument dumps; history "
             "cases run sequences of reads on one object with one shared key buffer, and sequences of GetTo calls on the "
             "object, a second object and partner objects with one shared result buffer."),
    "note": ("Trusted: Coq kernel, extraction, Go harness (reflection value builder, proxy inspector, canonical dumps), Go compiler. "
             "The models take the value tree, so purity of reads is structural in the model; the stream's before/after dumps carry "
             "that clause for the real code. No axioms."),
    "technique": "Rocq proof (induction on the type tree for Get; case analysis on argument forms) + extracted-model correspondence on generated inspectors in all argument forms",
}
