from lib.engine import Check, Stream
from lib.emit import emit_stream

ISOLATE = "python3 {root}/lib/isolate.py "


def hostile_emit(name):
    """the emit-unit stream, run under lib/isolate.py: a case that kills the runner is observed as ABORT:<why>"""
    st = emit_stream(name, drv=name)
    st.env = {"EMIT_RODATA": "1"}     # strings of the built values live in read-only memory (harness/emit/rodata.go)
    inner = st.prepare

    def prepare(tier, seed):
        err = inner(tier, seed)
        if err:
            return err
        st.cmd = ISOLATE + st.cmd
        return None
    st.prepare = prepare
    return st


def hrun_stream(name, descr):
    return Stream(name, drv=name, sub=name, descr=descr,
                  cmd=ISOLATE + "{root}/build/hrun " + name + " < {cases} > {obs}")


CHECK = Check(
    "C02",
    streams=[
        hostile_emit("c02"),
        hrun_stream("c02ship", "the same hostile calls on the SHIPPED inspectors of /repo/testobj_ins (13 testobj types)"),
        hrun_stream("c02reflect", "ReflectInspector.Get on the shipped types and on defined-type units (type Lang string as map key ...): "
                                  "value of the result against Model/ReflectIns.v; Get / GetTo return (defined units)"),
        hrun_stream("c02builtin", "static / strings / map[string]any / reflect inspectors and Assign with hostile arguments built in Go"),
    ],
    rule=("one inspector call per case, observed as ok (returned) or PANIC:<kind> (recover) or ABORT:<why> (the runner process died: "
          "every batch runs in a child process, lib/isolate.py bisects down to the aborting case); spec = ok for every case. In the c02 stream every STRING of the built values lives in READ-ONLY memory, as literals do (mmap + mprotect, harness/emit/rodata.go): an operation that writes into a string's bytes dies with a fault, observed as ABORT. "
          "c02: generated inspectors of the model's emit units (quick: 159 units) x value variants (pointers nil/set, collections "
          "nil/empty/1/3 elements, nil elements, boundary scalars) x every path of Gen/EnumVal.v (resolving, unknown field, absent "
          "key, index -1/len/len+1/huge, unparsable, nil pointer on the way, past a scalar) with two rotating calls out of {Get, "
          "GetTo, Length, Capacity, Compare (operators 0..8 and the undefined 9, 16 operand texts), Compare with \"nil\", Loop (7 "
          "iterator scripts incl. undefined LoopCtl values), Set and SetWithBuffer (sources: every scalar kind / string / []byte in "
          "value and pointer form, typed nil pointers to all 15 kinds, untyped nil, foreign value / pointer / nil pointer, nil and "
          "non-nil pointers to the container the path addresses and to the root type), ReflectInspector.Get}, argument forms T, *T, "
          "**T; Set / SetWithBuffer with a source that is a CONTAINER OF THE PATH'S OWN TYPE (pointer to the struct / map / slice type "
          "found after k segments: nil pointer, zero value - nil map, nil slice, zero struct -, empty, populated): every distinct "
          "resolving path of >= 2 segments x every position below the root x the 4 kinds, so that the call continues INTO the "
          "replacement, and every tenth (value, path) of any class with one kind per position (root and end of the path included); mangled paths (garbage last / first segment out of 20 - empty, huge, unicode, nil, signs, bases, floats, 120 "
          "bytes -, segments beyond the end of resolving paths and past looped collections); whole-value calls DeepEqual[WithOptions] "
          "(right operand in 8 forms), Copy, CopyTo (9 destinations incl. the source itself, nil pointers, by value, foreign), "
          "Reset, Unmarshal (15 inputs x 3 encodings), TypeName; nil-pointer-key and NaN-key maps; and every method on the hostile "
          "argument forms typed nil *T, **T to nil, nil **T, untyped nil, foreign. c02ship: the same generator over the 13 "
          "declarations of /repo/testobj with the shipped testobj_ins. c02reflect: ReflectInspector.Get on the shipped types, every "
          "path + mangled paths, 8 argument forms; and on 9 DEFINED-type units (same Kind(), other type identity: maps keyed by "
          "defined string / int32 / uint16 / uint64 / uint8 / bool / float64 types and by pointers to them, defined slice, byte "
          "slice, map and struct types as values, elements, fields, roots, behind pointers and nested), key present / absent / nil "
          "map / garbage segment, each path judged twice - the value Get returns (model) and Get + GetTo return at all (spec ok). c02builtin: 4 built-in inspectors x up to 40 arguments (typed nil pointers of "
          "every kind, nil / empty containers, nil elements, foreign types, struct with nil embedded pointer, self-referential "
          "pointer, channels, funcs, arrays) x every method with 25 paths / 10 operators / 9 operands / 16 assigned values; "
          "reflect Get / GetTo with paths that hit and miss the entries of 15 arguments whose keys only their %v text names (struct, "
          "array, interface, pointer, channel, complex keys, key types with a String method incl. a panicking one) or whose "
          "types are defined pointer / recursive map / embedded map types and defined types behind interfaces; "
          "Assign and AssignBuf: 12 destinations x 31 sources. distinct = distinct input text, all non-trivial."),
    assumptions=["out-parameters (*buf, *result), iterator and byte buffer are non-nil, as the signatures require; Assign's destination "
                 "pointer is non-nil",
                 "values are finite trees (the Rocq models); the one cyclic value tried (a self-referential pointer) is a listed finding",
                 "Loop: the no-panic theorem needs every key of the iterated map to be rendered to a text that parses back (keys_ok: "
                 "all string / integer / bool keys without a nil pointer key; float keys pointwise)",
                 "Set: theorem on the sound fragment of C03 (all units of the stream are inside); assigned container pointers, typed "
                 "nil and foreign sources are exercised by the stream without a model prediction",
                 "Unmarshal: encoding/json is an oracle; exercised for panics only",
                 "c02builtin has no model column: what Model/Static.v, Strings.v, StrAnyMap.v, Assign.v predict for typed nil operands is "
                 "compared by the streams c16-c19; here only the property (spec = ok) is judged"],
)

MANIFEST = {
    "category": "proof",
    "text": ("Rocq theorems, one per inspector family, over the existing executable models: C02_generated_no_panic (every generated "
             "method through Model/Api.v's exec, for all well-formed nodes, ALL argument forms incl. typed nil roots, all paths, "
             "operators, operands, scripts, assigned values of the modelled domain) with per-method corollaries, C02_assign, "
             "C02_static_no_panic, C02_static_deq_terminates, C02_strings_no_panic, C02_stranymap_no_panic, C02_reflect_no_panic "
             "(new model Model/ReflectIns.v of ReflectInspector.Get), each with its domain explicit, and C02_refuted_* witnesses for "
             "the remaining panic classes (nil pointer map key in Loop, typed nil pointer sources of Assign, typed nil operands of "
             "the static inspector) and for the repaired ones (the pinned reflect index, typed nil pointers handed to the strings "
             "inspector - C02_strings_no_panic now covers every argument). Hostile correspondence streams run the real generated, "
             "shipped and built-in inspectors on ~58k hostile calls (quick); observation ok / PANIC / ABORT, spec ok, model = "
             "prediction of the existing models."),
    "note": ("Trusted: Coq kernel, extraction, Go harness, lib/isolate.py (process isolation by bisection). The models are tied to the "
             "code by the correspondence streams (panic/no-panic granularity here, full observations in C01-C19). Five defects "
             "repaired (reflect index, reflect embedded nil pointer, Set with a typed nil container pointer, map[string]any Set with "
             "a typed nil *string, typed nil pointers handed to the strings inspector), five classes listed as open findings. No axioms."),
    "technique": "Rocq aggregate theorems over existing emitter models + hostile differential stream with process isolation",
}
