import os
from lib.engine import Check, ROOT
from lib.units import units_stream
from lib import shipped

CHECK = Check(
    "C13",
    streams=[units_stream("units", fields=["xmlast", "xmlpkg", "det", "tgt", "hist"],
                          nontrivial=lambda tags, inp: True, select=lambda tags: tags.startswith("sup") or tags.startswith("unsup"),
                          vacuous=lambda tags, o: tags.startswith("unsup") and o == "")],
    rule=("every unit of the depth<=2 enumeration for which the real generator produces output (supported or not: the units whose generated code does not compile are C14's finding, but their parse trees are compared all the same; a unit the generator refuses outright - [][]byte and the like - has no tree to compare and is counted out_of_scope_cases): the real generator is run for the file, directory and package targets "
          "and twice for the file target; XML dumps of all targets are compared (as hashes) with the dump of the two parser models; "
          "a decoy declaration set that declares the units' named scalar types the other way round (Kind string, Label int32) is generated first, and the multi-field / grouped units are generated once more by a SECOND PROCESS that generated nothing before: same sources up to numbering (hist=ok) - no state may survive from one declaration set to the next; sources must be identical across runs and targets up to the numbering of t/err/i identifiers; a regeneration into a KEPT destination (NoClean) after a same-size edit of the declarations (a renamed field) must leave on disk what a fresh destination gets, sources and XML (det=stale-src / stale-xml otherwise); plus: the package target run "
          "on /repo/testobj must reproduce /repo/testobj_ins/*.go and /repo/testdata/*.xml byte for byte. distinct = distinct "
          "declaration text."),
    assumptions=["determinism of the emitted text given the node tree is observed (two runs, three targets), not proved: there is no "
                 "text-level model of the generator",
                 "the unbounded parser agreement theorem (C13_parsers_agree) has two decidable premises: a non-empty import path and "
                 "pwf_root (no pointer to pointer, at most one named reference per printed unnamed map type, struct literals only as "
                 "named definitions, named types non-empty and not defined as pointers, no named []byte outside a pointer); every "
                 "enumerated supported unit satisfies them (C13_premise_covers_enumeration) and each is shown necessary by a witness"],
    post=shipped.post,
)

MANIFEST = {
    "category": "proof",
    "text": ("Partial. Proved in Rocq: the go/ast and go/types parser models build the same type tree (hence the same XML and the same "
             "emitter input) for EVERY well-formed root declaration - any nesting depth, any identifiers, any non-empty import path "
             "(C13_parsers_agree, by induction on the declared type; premise pwf_root, which holds for every supported unit of the "
             "exhaustive depth<=2 enumeration and is shown necessary clause by clause) - and, independently, for that enumeration by "
             "computation; they differ outside the fragment (refutation). Observed on every run: the parser models' XML equals the real XML of all three targets for every "
             "enumerated unit; generated sources agree across repeated runs and across targets up to local numbering; the shipped "
             "testobj_ins/testdata are byte-identical to what the current generator produces."),
    "note": ("Text determinism and shipped-output identity are translation validation, not theorems. No axioms; the parser agreement "
             "is an unbounded theorem with decidable premises, plus vm_compute over the finite enumeration (bound in that statement)."),
    "technique": "Rocq theorem by induction on declared types (unbounded) + enumerated check (vm_compute) + translation validation of all targets",
}
