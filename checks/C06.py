from lib.engine import Check
from lib.emit import emit_stream

CHECK = Check(
    "C06",
    streams=[emit_stream("c06", drv="c06"),
             # eight units of this check's own (Gen/GenC06b.v): maps whose values are structs held BY VALUE that own
             # pointers, slices and maps (kept out of the shared units: C03's finding nested_in_map_entry, fixed since by e955906)
             emit_stream("c06b", drv="c06b", unitsdrv="c06bunits")],
    rule=("generated inspectors of the model's emit units (quick: every third supported unit of the representative shape set + "
          "multi-field structs; thorough: every supported depth<=2 unit) x value variants (pointers nil/set, collections "
          "nil/empty/1/3 elements, nil elements, boundary scalars, empty and multi-byte strings, spare capacity) x {Copy with the "
          "source passed as T and *T; CopyTo into a zero destination and into an emptied one (non-nil empty maps, slices "
          "truncated with capacity) x buffer {zero ByteBuffer, exactly countBytes, countBytes+64}}; every input twice: raw dump "
          "+ buffer bytes used + growth of the exact buffer (model correspondence) and normal form, the real DeepEqual(source, "
          "copy), source re-read, address-range overlap of every slice array incl. capacity / map / pointer target of source and "
          "copy, then mutation of every mutable location of the copy (source re-read) and of the source (copy re-read); "
          "distinct = distinct input text, all non-trivial. Stream c06b: the same cases on eight own units whose maps hold "
          "structs BY VALUE that own memory (map[K]S with S holding pointers to scalars / strings / structs / slices / maps "
          "/ bytes, slices of scalars, strings, structs and pointers, maps, nested by-value structs with such members; as "
          "named root map, field, pointer field, field of a named map type, inner map of a root map, below slice elements "
          "and nested struct fields; float, integer and string keys), on the value variants plus a second pass whose "
          "collections take their entries further along the element's variants (several elements with spare capacity, "
          "two-entry maps, nil next to set members inside map values)."),
    assumptions=["an empty []byte prints the same whether nil or not (whether a bufferized empty byte slice is nil depends on the "
                 "buffer being nil at that moment, i.e. on map iteration order)",
                 "sharing is judged natively by the harness (addresses as overlap classes, mutation); strings are immutable and "
                 "not part of the overlap classes; disjointness of the byte slices handed out by the buffer is C07's theorem",
                 "DeepEqual is the generated one (C05's emitter); the model predicts its verdict on (source, copy) pairs only"],
)

MANIFEST = {
    "category": "proof",
    "text": ("Rocq model of the code emitted by writeCopy / writeCountBytes / writeNodeCopy / writeNodeCopyTo (structural recursion "
             "on the node tree) with theorems by induction on the node: Copy, and CopyTo into any empty destination, return a value "
             "structurally identical to the source up to nil-versus-empty collections; the model of the generated DeepEqual (C05) "
             "answers true for source and copy (C06_equal = C06_structure composed with C05_copy_equal, refuted for pointer-keyed "
             "maps); no statement of cpy stores a reference of the source; no call panics. Correspondence and native oracle: every "
             "case runs the real Copy/CopyTo, the real DeepEqual, and an address-overlap + mutation check of source against copy."),
    "note": ("Trusted: Coq kernel, extraction, Go harness (reflection value builder, overlap and mutation oracle), Go compiler. Value "
             "trees carry no allocation identity: the no-sharing clause is a theorem about the provenance model cpy_allocs "
             "(C06_disjoint) and is established on the real code by the native oracle on every case. Known: DeepEqual of maps with "
             "pointer keys (compared by identity). No axioms."),
    "technique": "Rocq proof by induction on the type tree + extracted-model correspondence and native sharing oracle on generated inspectors",
}
