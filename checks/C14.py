from lib.engine import Check
from lib.units import units_stream
from lib.emit import emit_stream

CHECK = Check(
    "C14",
    level="translation_validation",
    streams=[units_stream("units", fields=["gen", "files", "fmt", "build", "iface"],
                          nontrivial=lambda tags, inp: True),
             emit_stream("meta", drv="meta")],
    rule=("every candidate unit (one root type placed as a struct field and, for maps and slices, as a named root type, over every "
          "field shape of depth <= 2: quick = the representative scalar kinds, thorough = all 16 scalar kinds at depth 1) plus "
          "multi-root sets with blacklist subsets, NoClean on/off and a case-colliding pair: the real generator is run (file target), "
          "the set of written files is compared with the model, every file is checked gofmt-clean, all packages are compiled together "
          "with a compile-time assertion that each generated type implements inspector.Inspector; stream `meta`: every linked "
          "generated type is fetched from the registry by name and reports its type name. distinct = distinct declaration text."),
    assumptions=["'compiles' is established per program by the Go compiler, 'gofmt-clean' by go/format: Coq has no Go type checker",
                 "shapes outside the model's supported fragment (sup_root = false) are listed as ONE known finding; the model makes no prediction for them"],
    extra_trusted=["go/format and the Go compiler (gc) as the judges of the generated text"],
)

MANIFEST = {
    "category": "translation_validation",
    "text": ("Per generated program: the real generator is run on every enumerated declaration set, its output is checked by gofmt and "
             "compiled with an interface assertion, and the file set is compared with the model's prediction. Rocq theorems cover the "
             "generator's decisions only: eligibility of root declarations (unbounded), blacklist/uniq selection (unbounded), one file "
             "per type over the exhaustive depth<=2 enumeration, and the refutation for names differing only in case."),
    "note": ("The Go compiler's acceptance cannot be a Coq theorem here. Known finding: about half of the depth<=2 shapes of the grammar "
             "do not generate or do not compile (model predicate sup_root, kept exact by this stream)."),
    "technique": "translation validation of every enumerated unit + Rocq theorems on eligibility/selection",
}
