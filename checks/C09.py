from lib.engine import Check
from lib.emit import emit_stream

CHECK = Check(
    "C09",
    streams=[emit_stream("c09", drv="c09")],
    rule=("generated inspectors of the model's emit units x value variants x every path of Gen/EnumVal.v (resolving paths to every "
          "node, unknown field / absent key / index -1,len,len+1,huge / unparsable / nil pointer / past-scalar variants) x iterator "
          "scripts (key wanted, not wanted, alternating; all None, all Continue, Break at every position and beyond the end, mixed) "
          "for paths that denote a collection, one script otherwise; plus one raw-trace case per collection path; "
          "distinct = distinct input text."),
    assumptions=["map iteration order is an oracle: rounds of map loops are compared as sorted multisets; under Break only the number of "
                 "rounds and their membership in the full iteration are compared",
                 "float keys stay on the exact-decimal domain of render_float (the case generator uses 1.5 and 2)",
                 "key texts are read back like the generated code reads path segments (strconv.ParseInt/ParseUint base 0, ParseFloat)",
                 "argument form p only (other forms belong to C12); the buffer pointer handed to Loop is non-nil"],
)

MANIFEST = {
    "category": "proof",
    "text": ("Rocq model of the code emitted by writeNode(modeLoop) and the Loop header (structural recursion on the node tree; iterator "
             "as a script; trace of RequireKey/SetKey/SetVal/Iterate calls; map order as an oracle) with theorems by induction on "
             "the node and on the element list. Correspondence: the extracted model predicts, and the navigation spec judges, every "
             "case the real generated Loop methods are run on with a recording iterator."),
    "note": ("Trusted: Coq kernel, extraction, Go harness (reflection value builder, recording iterator), Go compiler. The model is tied "
             "to the generator only through the generated inspectors' behaviour on the enumerated units. No axioms."),
    "technique": "Rocq proof by induction on the type tree + extracted-model correspondence on generated inspectors",
}
