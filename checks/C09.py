from lib.engine import Check
from lib.emit import emit_stream

CHECK = Check(
    "C09",
    streams=[emit_stream("c09", drv="c09")],
    rule=("generated inspectors of the model's emit units x value variants x every path of Gen/EnumVal.v (resolving paths to every "
          "node, unknown field / absent key / index -1,len,len+1,huge / unparsable / nil pointer / past-scalar variants) x iterator "
          "scripts (key wanted, not wanted, alternating; all None, all Continue, Break at every position and beyond the end, mixed) "
          "for paths that denote a collection, one script otherwise; plus one raw-trace case per collection path; plus HISTORIES "
          "of Loop calls that share one caller-owned key buffer (nil, empty or pre-filled): for every non-empty collection A of "
          "every value (string keys made longer than any rendered key) Loop A, Loop B, Loop A with B a collection whose keys are "
          "put into the buffer in another way (classes string / slice index / int / uint / float / bool; after a string-keyed A "
          "every other class, otherwise a string-keyed B and one other class in rotation; B in the same object when it has one, "
          "else in a partner object of another unit), the first call under a rotation of the control patterns (Break at every "
          "position), the demand checked for every call and every reported key looked up natively in the collection; "
          "distinct = distinct input text."),
    assumptions=["map iteration order is an oracle: rounds of map loops are compared as sorted multisets; under Break only the number of "
                 "rounds and their membership in the full iteration are compared",
                 "float keys stay on the exact-decimal domain of render_float (the case generator uses 1.5 and 2)",
                 "key texts are read back like the generated code reads path segments (strconv.ParseInt/ParseUint base 0, ParseFloat)",
                 "argument form p only (other forms belong to C12); the buffer pointer handed to Loop is non-nil",
                 "histories: map keys and strings of the harness objects are run-time (heap) strings, as keys read from input are; "
                 "the key buffer is not a component of the model's state (Model/ApiSeq.v)"],
)

MANIFEST = {
    "category": "proof",
    "text": ("Rocq model of the code emitted by writeNode(modeLoop) and the Loop header (structural recursion on the node tree; iterator "
             "as a script; trace of RequireKey/SetKey/SetVal/Iterate calls; map order as an oracle) with theorems by induction on "
             "the node and on the element list, and on the length of a history of Loop calls over a store of objects. Correspondence: the extracted model predicts, and the navigation spec judges, every "
             "case the real generated Loop methods are run on with a recording iterator."),
    "note": ("Trusted: Coq kernel, extraction, Go harness (reflection value builder, recording iterator), Go compiler. The model is tied "
             "to the generator only through the generated inspectors' behaviour on the enumerated units. No axioms."),
    "technique": "Rocq proof by induction on the type tree + extracted-model correspondence on generated inspectors",
}
