from lib.engine import Check
from lib.emit import emit_stream

CHECK = Check(
    "C10",
    streams=[emit_stream("c10", drv="c10", nontrivial=lambda tags, inp: "end" not in tags.split(",") or True)],
    rule=("generated inspectors of the model's emit units (quick: every third supported unit of the representative shape set + "
          "multi-field structs; thorough: every supported depth<=2 unit) x value variants (pointers nil/set, collections "
          "nil/empty/1/3 elements, boundary scalars, empty and multi-byte strings, spare capacity) x every resolving path and "
          "the unknown-field / absent-key / index -1,len,len+1,huge / unparsable / nil-pointer / past-scalar variants x {Length, "
          "Capacity}; distinct = distinct input text, all non-trivial."),
    assumptions=["slice index and integer key segments are parsed like the code does (strconv.ParseInt base 0)",
                 "Capacity of strings and maps, and Length/Capacity of scalars and structs, are unspecified by the property"],
)

MANIFEST = {
    "category": "proof",
    "text": ("Rocq model of the code emitted by writeNodeLC (structural recursion on the node tree) with theorems by induction on "
             "the node: the only error is a parse error; Length/Capacity of directly addressed elements; refutations for the "
             "panicking path classes. Correspondence: the extracted model predicts, and the navigation spec judges, every case the "
             "real generated Length/Capacity are run on."),
    "note": ("Trusted: Coq kernel, extraction, Go harness (reflection value builder), Go compiler. The model is tied to the generator "
             "only through the generated inspectors' behaviour on the enumerated units. No axioms."),
    "technique": "Rocq proof by induction on the type tree + extracted-model correspondence on generated inspectors",
}
