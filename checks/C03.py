from lib.engine import Check
from lib.emit import emit_stream

CHECK = Check(
    "C03",
    streams=[emit_stream("c03", drv="c03"),
             # three units of this check's own (Gen/GenC03x.v): structs held by value as map entries with nested fields
             # (finding nested_in_map_entry, fixed by e955906; inside the sound fragment since)
             emit_stream("c03x", drv="c03x", unitsdrv="c03xunits"),
             # two units of this check's own (Gen/GenC03b.v), inside the sound fragment: an element of every integer and
             # float kind the shared quick units lack, for the boundary sweep
             emit_stream("c03b", drv="c03b", unitsdrv="c03bunits")],
    rule=("generated inspectors of the model's emit units x value variants (pointers nil/set, collections nil/empty/1/3 "
          "elements, boundary scalars) x every resolving path and the unknown-field / absent-key / index -1,len,len+1,huge / "
          "unparsable / nil-pointer / past-scalar variants x a rotation of assigned values (the element's own kind in value and "
          "pointer form, every other scalar family, decimal text, []byte) x {Set, SetWithBuffer}, through *T. Two lines per case: "
          "`set` (error + dump of the whole object; spec = the exact object when the path denotes an existing scalar/string/bytes "
          "element and the value converts) and `setframe` (the frame condition decided natively by the harness with reflect; "
          "spec = frame=1 always). distinct = distinct input text, all non-trivial. Stream c03x: the same case shapes on three "
          "own units map[string]Rec / struct{F map[int32]Rec} with Rec{N Pt; C int32} held by value, and map[int32]Rec2 with "
          "Rec2{N Pt; P *Pt; L []Pt; M map[int32]Lf; S map[string]int32; C int32} held by value (nested struct, pointer, slice "
          "and maps - nil, empty, populated - below the entry; entries in entries). "
          "Boundary sweep (tag bnd; Gen/GenC03.v bnd_block): per leaf kind one bounded pass, spread over the places where an "
          "element of the kind occurs, of decimal TEXT sources (string, *string, []byte, *[]byte; buffered and not) spelling "
          "kmin/kmax of the element's kind and of int64/uint64, their neighbours inside and outside the range, leading zeros, "
          "explicit sign, -0, +5, malformed spellings; for float elements the greatest float32/float64, the rounding "
          "boundaries to infinity and to zero, subnormals, integers beyond 2^24/2^53; and typed integer sources of every width "
          "holding kmin/kmax of their kind. Stream c03b: the sweep on twelve own units B<kind> struct{F k; P *k; S []k; "
          "M map[string]k}, one per integer and float kind (the shared quick units hold the representative kinds only). "
          "Histories (stream c03, tag hist; Gen/GenC03h.v, Model/SetHist.v): 2-4 calls on ONE object sharing ONE inspector.ByteBuffer - a zero buffer, "
          "NewByteBuffer(n) with spare capacity for all / some / none of the conversions, a buffer somebody used before (whose "
          "earlier hand-outs must stay intact), a used buffer after Reset; all calls buffered, buffered and plain Set "
          "alternating, none buffered - assigning scalars (int, uint, float, bool; value and pointer form) and now and then "
          "text to DIFFERENT string / []byte elements (fields, pointer fields, map values existing or created by the call, "
          "slice elements, nested), a numeric element in between. Per history one `sethist` line per prefix (error + dump "
          "of the whole object after its last call; spec = the exact object while the text fixes every call so far) and one "
          "`sethistframe` line (after EVERY call: off the call's path - the texts of the earlier calls included - the object "
          "is what it was right before that call, and no memory it referenced was written; spec = frame=1,...,1)."),
    assumptions=["assigned values: scalars, strings, non-nil []byte in value and pointer form; pointers to containers (the "
                 "value.(*T) replacement branch) are outside the modelled domain and never generated",
                 "rendered floats stay inside the exact-decimal domain; empty text is never assigned into a []byte element",
                 "argument form *T only (the other forms belong to C12)",
                 "what 'convertible' means where the text does not decide (signed into unsigned, float into integer, number "
                 "into bool, bool into text) is left open: only the frame condition is demanded there"],
)

MANIFEST = {
    "category": "proof",
    "text": ("Rocq model of the code emitted by writeNode in set mode (structural recursion on the node tree, threading the new "
             "value of what each Go variable designates and whether the emitted write-back is reached) with theorems by "
             "induction on the node: frame condition for all paths and values, set-then-get for resolving leaf paths, no panic; "
             "a refutation for the emitter before the last generator fix (lost updates below nested fields of by-value map entries); the same for HISTORIES of calls on one object (a call keeps the "
             "object well-typed, so every call of a history meets the demand on the object the earlier calls left; on the "
             "buffer's side no sequence of buffered conversions rewrites a text handed out earlier). Correspondence: the extracted model predicts the whole object "
             "after every generated Set call and after every call of the generated histories (one shared ByteBuffer); the frame "
             "condition is also decided natively on the real objects, after every call."),
    "note": ("Trusted: Coq kernel, extraction, Go harness (reflection value builder, native off-path comparison), Go compiler. "
             "The leaf conversion is a small own model of AssignBuf on the generated source domain. No axioms."),
    "technique": "Rocq proof by induction on the type tree + extracted-model correspondence on generated inspectors",
}
