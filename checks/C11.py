from lib.engine import Check
from lib.emit import emit_stream

CHECK = Check(
    "C11",
    streams=[emit_stream("c11", drv="c11")],
    rule=("generated inspectors of the model's emit units x value variants (quick: per unit the variant with the most mutation positions - every "
          "collection populated, so every field of every element of every collection-of-structs field, named or literal-typed, is "
          "mutated - and the second variant) x every one-position mutation (any kind of difference, pointer nil-ness included) x "
          "option sets naming the dotted field of the mutated position / its top ancestor / a sibling (element) field / the bare last "
          "name (an unrelated root-level key of the same name) / nothing, as Exclude, as Filter (with and without the ancestors), both at once, "
          "empty and nil options, and for float shifts Precision above (0.1) / below (1e-5) the gap and a negative Precision; "
          "DeepEqualWithOptions in both argument orders; plus the argument-form matrix (every ordered combination of the operand "
          "forms (T, *T, **T) x (T, *T, **T), both orders in each) on the first mutation of every kind of the most populated variant "
          "with the mutated field excluded / filtered in (root collections: empty options / a Filter naming nothing; floats also "
          "Precision above the gap): the demanded answer in every cell; plus inspector.DEQMustCheck over {nil, empty, Exclude, Filter, both, "
          "precision only} x {listed, unlisted, empty, dotted} paths and EqualFloat64/32 exactly at, just inside and just outside the "
          "tolerance in force. distinct = distinct input text."),
    assumptions=["a field's option name is the dotted chain of struct field names leading to it (map keys and slice indices are not part of it)",
                 "a difference that lies in no field (length or key set of a root map / slice) is not subject to the options",
                 "a float difference within the tolerance in force may be reported either way, the same in both argument orders"],
)

MANIFEST = {
    "category": "proof",
    "text": ("Rocq model of DEQMustCheck, EqualFloat64/32 and of the option call sites of the code emitted by writeNodeDEQ; theorems "
             "for all well-formed nodes, values and option sets: the decision table, nil = empty = default, a positive Precision "
             "replaces the tolerance, the result is independent of excluded fields and sees every difference outside them, with "
             "only a Filter exactly the listed fields reached through listed ancestors matter. Correspondence: the extracted model "
             "predicts, and the option-aware structural-equality spec judges, every call made on the real generated inspectors."),
    "note": ("Trusted: Coq kernel, extraction, Go harness (reflection value builder), Go compiler. The model is tied to the generator "
             "only through the generated inspectors' behaviour on the enumerated units. No axioms."),
    "technique": "Rocq proof by induction on the type tree + decision table + extracted-model correspondence on generated inspectors",
}
